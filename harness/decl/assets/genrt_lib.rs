//! genrt: runtime shared by every generated C19 program (written out by
//! `vmon_decl c19-programs`; source of truth is harness/decl/assets/genrt_lib.rs).
//!
//! A generated program declares the same API three ways and hands the three
//! constructors to `genrt::main`, which either
//!   dump  <versions.json> <out.json>   writes documents + route tables
//!   serve <default_body_max>           starts the function-based and the
//!                                      trait-impl-based server and answers
//!                                      `log` / `quit` lines on stdin.
#![allow(dead_code)]

pub use dropshot;
pub use schemars;
pub use semver;
pub use serde;

use dropshot::{
    ApiDescription, ClientSpecifiesVersionInHeader, ConfigDropshot,
    ExtensionMode, RequestContext, ServerBuilder, ServerContext, StubContext,
    VersionPolicy,
};
use schemars::JsonSchema;
use serde::{Deserialize, Serialize};
use serde_json::{json, Value};
use std::io::{BufRead, Write};
use std::sync::{Arc, Mutex};

pub const VERSION_HEADER: &str = "x-api-version";

#[derive(Serialize, Clone, Debug)]
pub struct Hit {
    pub uid: String,
    pub decl: String,
    pub op: String,
    pub limit: Option<usize>,
    pub ctype: String,
    pub args: String,
    pub body_len: usize,
}

pub struct State {
    pub style: &'static str,
    pub hits: Mutex<Vec<Hit>>,
}

pub type Ctx = Arc<State>;

/// What every body-bearing handler answers with.
#[derive(Serialize, Deserialize, JsonSchema, Debug, Clone)]
pub struct Echo {
    pub decl: String,
    pub op: String,
    pub args: String,
    pub body_len: usize,
}

/// A second response type so that programs have more than one schema.
#[derive(Serialize, Deserialize, JsonSchema, Debug, Clone)]
pub struct EchoB {
    pub who: String,
    pub operation: String,
    pub n: u64,
}

#[derive(Serialize, Deserialize, JsonSchema, Debug, Clone)]
pub struct EchoHeaders {
    #[serde(rename = "x-echo-decl")]
    pub decl: String,
}

/// Custom error type (the `HttpResponseError` alternative to `HttpError`).
#[derive(Debug, Serialize, JsonSchema)]
pub struct GenError {
    pub message: String,
    pub kind: String,
    #[serde(skip)]
    pub status: u16,
}

impl std::fmt::Display for GenError {
    fn fmt(&self, f: &mut std::fmt::Formatter<'_>) -> std::fmt::Result {
        write!(f, "{} ({})", self.message, self.kind)
    }
}

impl dropshot::HttpResponseError for GenError {
    fn status_code(&self) -> dropshot::ErrorStatusCode {
        dropshot::ErrorStatusCode::from_u16(self.status)
            .unwrap_or(dropshot::ErrorStatusCode::INTERNAL_SERVER_ERROR)
    }
}

impl From<dropshot::HttpError> for GenError {
    fn from(e: dropshot::HttpError) -> Self {
        GenError {
            message: e.external_message,
            kind: "from-dropshot".to_string(),
            status: e.status_code.as_u16(),
        }
    }
}

/// Record that handler `decl` ran, with what dropshot told it about itself.
pub fn hit(
    rqctx: &RequestContext<Ctx>,
    decl: &str,
    args: String,
    body_len: usize,
) -> Echo {
    let uid = rqctx
        .request
        .headers()
        .get("x-vmon-uid")
        .and_then(|v| v.to_str().ok())
        .unwrap_or("")
        .to_string();
    let h = Hit {
        uid,
        decl: decl.to_string(),
        op: rqctx.endpoint.operation_id.clone(),
        limit: rqctx.endpoint.request_body_max_bytes,
        ctype: rqctx.endpoint.body_content_type.mime_type().to_string(),
        args: args.clone(),
        body_len,
    };
    rqctx.context().hits.lock().unwrap().push(h.clone());
    Echo { decl: h.decl, op: h.op, args, body_len }
}

pub fn echo_b(e: &Echo) -> EchoB {
    EchoB { who: e.decl.clone(), operation: e.op.clone(), n: e.body_len as u64 }
}

pub struct Apis {
    pub fns: fn() -> ApiDescription<Ctx>,
    pub tr: fn() -> ApiDescription<Ctx>,
    pub stub: fn() -> ApiDescription<StubContext>,
}

fn dump_one<C: ServerContext>(
    api: ApiDescription<C>,
    versions: &[semver::Version],
) -> Value {
    let mut docs = serde_json::Map::new();
    for v in versions {
        let mut buf: Vec<u8> = Vec::new();
        let r = api.openapi("generated api", v.clone()).write(&mut buf);
        let entry = match r {
            Ok(()) => json!({"doc": String::from_utf8_lossy(&buf)}),
            Err(e) => json!({"error": e.to_string()}),
        };
        docs.insert(v.to_string(), entry);
    }
    let router = api.into_router();
    let row = |path: String, method: String, ep: &dropshot::ApiEndpoint<C>| {
        json!({
            "path": path,
            "method": method,
            "operation_id": ep.operation_id,
            "versions": format!("{:?}", ep.versions),
            "visible": ep.visible,
            "deprecated": ep.deprecated,
            "tags": ep.tags,
            "body_content_type": ep.body_content_type.mime_type(),
            "request_body_max_bytes": ep.request_body_max_bytes,
            "summary": ep.summary,
            "description": ep.description,
            "success": ep.response.success.map(|s| s.as_u16()),
            "websocket": matches!(ep.extension_mode, ExtensionMode::Websocket),
            "nparams": ep.parameters.len(),
        })
    };
    let table: Vec<Value> =
        router.endpoints(None).map(|(p, m, ep)| row(p, m, ep)).collect();
    let mut routes = serde_json::Map::new();
    for v in versions {
        let rows: Vec<Value> = router
            .endpoints(Some(v))
            .map(|(p, m, ep)| {
                json!([m, p, ep.operation_id, format!("{:?}", ep.versions)])
            })
            .collect();
        routes.insert(v.to_string(), Value::Array(rows));
    }
    json!({"table": table, "docs": docs, "routes": routes})
}

fn do_dump(apis: &Apis, versions_file: &str, out: &str) {
    let text = std::fs::read_to_string(versions_file).expect("versions file");
    let names: Vec<String> = serde_json::from_str(&text).expect("versions json");
    let versions: Vec<semver::Version> = names
        .iter()
        .map(|s| semver::Version::parse(s).expect("version"))
        .collect();
    // a constructor that panics (registration refused) is reported per
    // style, so that "one style registers, another does not" is observable
    fn guarded<C: ServerContext>(
        f: fn() -> ApiDescription<C>,
        versions: &[semver::Version],
    ) -> Value {
        let msg = Arc::new(Mutex::new(String::new()));
        let m2 = msg.clone();
        std::panic::set_hook(Box::new(move |info| {
            *m2.lock().unwrap() = info.to_string();
        }));
        let r = std::panic::catch_unwind(|| f());
        let _ = std::panic::take_hook();
        match r {
            Ok(api) => dump_one(api, versions),
            Err(_) => json!({"error": msg.lock().unwrap().clone()}),
        }
    }
    let j = json!({
        "fn": guarded(apis.fns, &versions),
        "tr": guarded(apis.tr, &versions),
        "stub": guarded(apis.stub, &versions),
    });
    std::fs::write(out, serde_json::to_vec(&j).unwrap()).expect("write dump");
}

fn start(
    api: ApiDescription<Ctx>,
    ctx: Ctx,
    body_max: usize,
) -> dropshot::HttpServer<Ctx> {
    let log = slog::Logger::root(slog::Discard, slog::o!());
    let config = ConfigDropshot {
        bind_address: "127.0.0.1:0".parse().unwrap(),
        default_request_body_max_bytes: body_max,
        ..Default::default()
    };
    let name = http::HeaderName::from_static(VERSION_HEADER);
    ServerBuilder::new(api, ctx, log)
        .config(config)
        .version_policy(VersionPolicy::Dynamic(Box::new(
            ClientSpecifiesVersionInHeader::new(
                name,
                semver::Version::new(99, 0, 0),
            ),
        )))
        .start()
        .expect("server start")
}

fn do_serve(apis: &Apis, body_max: usize) {
    let rt = tokio::runtime::Builder::new_multi_thread()
        .worker_threads(2)
        .enable_all()
        .build()
        .expect("runtime");
    let c_fn: Ctx = Arc::new(State { style: "fn", hits: Mutex::new(vec![]) });
    let c_tr: Ctx = Arc::new(State { style: "tr", hits: Mutex::new(vec![]) });
    // first: what happens when the same API is given to a server that resolves no
    // versions (the default policy)?  Reported in the hello line; the servers that are
    // then probed use the header policy.
    let unversioned = |api: ApiDescription<Ctx>, ctx: Ctx| -> &'static str {
        rt.block_on(async {
            let log = slog::Logger::root(slog::Discard, slog::o!());
            let config = ConfigDropshot { bind_address: "127.0.0.1:0".parse().unwrap(), ..Default::default() };
            match ServerBuilder::new(api, ctx, log).config(config).start() {
                Ok(s) => {
                    let _ = tokio::time::timeout(std::time::Duration::from_secs(5), s.close()).await;
                    "started"
                }
                Err(_) => "refused",
            }
        })
    };
    let u_fn = unversioned((apis.fns)(), c_fn.clone());
    let u_tr = unversioned((apis.tr)(), c_tr.clone());
    let (s_fn, s_tr) = rt.block_on(async {
        (
            start((apis.fns)(), c_fn.clone(), body_max),
            start((apis.tr)(), c_tr.clone(), body_max),
        )
    });
    let stdout = std::io::stdout();
    {
        let mut o = stdout.lock();
        writeln!(
            o,
            "{}",
            json!({"fn": s_fn.local_addr().to_string(), "tr": s_tr.local_addr().to_string(),
                   "unversioned_start": {"fn": u_fn, "tr": u_tr}})
        )
        .unwrap();
        o.flush().unwrap();
    }
    let stdin = std::io::stdin();
    for line in stdin.lock().lines() {
        let Ok(line) = line else { break };
        match line.trim() {
            "log" => {
                let a: Vec<Hit> = std::mem::take(&mut *c_fn.hits.lock().unwrap());
                let b: Vec<Hit> = std::mem::take(&mut *c_tr.hits.lock().unwrap());
                let mut o = stdout.lock();
                writeln!(o, "{}", json!({"fn": a, "tr": b})).unwrap();
                o.flush().unwrap();
            }
            "quit" => break,
            _ => {}
        }
    }
    rt.block_on(async {
        let _ = tokio::time::timeout(std::time::Duration::from_secs(5), s_fn.close()).await;
        let _ = tokio::time::timeout(std::time::Duration::from_secs(5), s_tr.close()).await;
    });
    rt.shutdown_background();
}

pub fn main(apis: Apis) {
    let args: Vec<String> = std::env::args().collect();
    match args.get(1).map(|s| s.as_str()) {
        Some("dump") => do_dump(&apis, &args[2], &args[3]),
        Some("serve") => {
            let body_max = args.get(2).and_then(|s| s.parse().ok()).unwrap_or(1024);
            do_serve(&apis, body_max)
        }
        _ => {
            eprintln!("usage: dump <versions.json> <out.json> | serve <body_max>");
            std::process::exit(2)
        }
    }
}
