//! Oracles (1)-(3) of C19 over the dump of one generated program.
//!
//! (1) the three documents are byte-identical per version and the three route
//!     tables are equal;
//! (2) route table and documents show every declared attribute exactly as
//!     declared (unpublished => registered but absent from the document);
//! (3) doc-text conservation.

use crate::docgen::{conserve, Conserve};
use crate::spec::{BodyKind, Decl, Kind, Program};
use serde_json::{json, Value};
use std::collections::BTreeMap;
use vmon::model::MVer;
use vmon::report::Report;

const STYLES: [&str; 3] = ["fn", "tr", "stub"];

fn first_diff(a: &str, b: &str) -> Value {
    let la: Vec<&str> = a.lines().collect();
    let lb: Vec<&str> = b.lines().collect();
    let mut i = 0;
    while i < la.len() && i < lb.len() && la[i] == lb[i] {
        i += 1;
    }
    let ctx = |l: &Vec<&str>| {
        let lo = i.saturating_sub(6);
        let hi = (i + 4).min(l.len());
        l[lo..hi].join("\n")
    };
    json!({"first_differing_line": i + 1, "left": ctx(&la), "right": ctx(&lb)})
}

fn sig_for_pair(a: &str, b: &str) -> &'static str {
    match (a, b) {
        ("fn", "tr") => "C19:trait-and-function-documents-differ",
        ("tr", "stub") => "C19:stub-and-impl-documents-differ",
        _ => "C19:stub-and-function-documents-differ",
    }
}

pub struct Ctx<'a> {
    pub seed: u64,
    pub prog: &'a Program,
    pub slot: &'a str,
}

impl Ctx<'_> {
    fn base(&self) -> Value {
        json!({"seed": self.seed, "program": self.prog.label, "slot": self.slot})
    }
    pub fn wit(&self, d: Option<&Decl>, extra: Value) -> Value {
        let mut w = self.base();
        if let Some(d) = d {
            w["declaration"] = d.manifest();
            w["attribute_source"] = json!(d.attr_text(false));
        }
        if let Value::Object(m) = extra {
            for (k, v) in m {
                w[k] = v;
            }
        }
        w
    }
}

/// Returns true when the three styles agree everywhere (then checking one
/// style against the manifest suffices).
fn check_styles_agree(rep: &mut Report, cx: &Ctx, dump: &Value, versions: &[MVer]) -> bool {
    let mut all_equal = true;
    // registration outcome
    let errs: Vec<Option<String>> =
        STYLES.iter().map(|s| dump[*s]["error"].as_str().map(|x| x.to_string())).collect();
    if errs.iter().any(|e| e.is_some()) {
        if errs.iter().all(|e| e.is_some()) {
            // The generator only emits sets whose ranges are pairwise disjoint
            // per (method, path) under the reference model and whose paths
            // cannot conflict structurally.  A registration refused for
            // overlapping versions therefore contradicts the declared ranges.
            let decls = &cx.prog.decls;
            let mut model_conflict = false;
            for (i, a) in decls.iter().enumerate() {
                for b in &decls[i + 1..] {
                    if a.method == b.method
                        && a.path == b.path
                        && a.versions.mrange().intersects(&b.versions.mrange())
                    {
                        model_conflict = true;
                    }
                }
            }
            let msg = errs[0].clone().unwrap_or_default();
            if !model_conflict
                && (msg.contains("overlapping version ranges") || msg.contains("duplicate route"))
                && errs.iter().all(|e| e.as_deref() == Some(msg.as_str()) || true)
            {
                let path_in_msg = decls
                    .iter()
                    .find(|d| msg.contains(&format!("\"{}\"", d.listed_path())) || msg.contains(&format!("\"{}\"", d.path)));
                rep.violate(
                    "C19:attribute-not-honoured:versions",
                    cx.wit(path_in_msg, json!({"where": "registration (all three styles refused)",
                        "why": "declared ranges on this method and path are pairwise disjoint, yet registration reports an overlap",
                        "same_path_declarations": path_in_msg.map(|p| decls.iter().filter(|d| d.path == p.path && d.method == p.method)
                            .map(|d| json!([d.name, d.versions.show()])).collect::<Vec<_>>()),
                        "fn": errs[0], "tr": errs[1], "stub": errs[2]})),
                );
            } else {
                rep.inconclusive("generated program could not build any ApiDescription (generator domain)");
            }
        } else {
            rep.violate(
                "C19:styles-differ-in-registration",
                cx.wit(None, json!({"fn": errs[0], "tr": errs[1], "stub": errs[2]})),
            );
        }
        return false;
    }
    for v in versions {
        let docs: Vec<Option<&str>> =
            STYLES.iter().map(|s| dump[*s]["docs"][&v.text]["doc"].as_str()).collect();
        if docs.iter().any(|d| d.is_none()) {
            let e: Vec<Value> =
                STYLES.iter().map(|s| dump[*s]["docs"][&v.text]["error"].clone()).collect();
            let n_err = docs.iter().filter(|d| d.is_none()).count();
            if n_err == 3 {
                rep.inconclusive("document generation failed in all three styles");
            } else {
                rep.violate(
                    "C19:styles-differ-in-document-generation",
                    cx.wit(None, json!({"version": v.text, "errors": e})),
                );
            }
            all_equal = false;
            continue;
        }
        rep.count("documents_compared", 3);
        for (i, j) in [(0usize, 1usize), (1, 2)] {
            let (a, b) = (docs[i].unwrap(), docs[j].unwrap());
            if a != b {
                all_equal = false;
                rep.violate(
                    sig_for_pair(STYLES[i], STYLES[j]),
                    cx.wit(
                        None,
                        json!({"version": v.text, "left_style": STYLES[i], "right_style": STYLES[j],
                               "diff": first_diff(a, b)}),
                    ),
                );
            }
        }
    }
    // route tables
    for (i, j) in [(0usize, 1usize), (1, 2)] {
        let (ta, tb) = (&dump[STYLES[i]]["table"], &dump[STYLES[j]]["table"]);
        let (ra, rb) = (&dump[STYLES[i]]["routes"], &dump[STYLES[j]]["routes"]);
        rep.count("route_tables_compared", 1);
        if ta != tb {
            all_equal = false;
            let (aa, bb) = (ta.as_array().cloned().unwrap_or_default(), tb.as_array().cloned().unwrap_or_default());
            let mut detail = json!({"left_rows": aa.len(), "right_rows": bb.len()});
            let mut field = "rows".to_string();
            for (x, y) in aa.iter().zip(bb.iter()) {
                if x != y {
                    if let (Some(xo), Some(yo)) = (x.as_object(), y.as_object()) {
                        for (k, vx) in xo {
                            if yo.get(k) != Some(vx) {
                                field = k.clone();
                                break;
                            }
                        }
                    }
                    detail = json!({"left": x, "right": y});
                    break;
                }
            }
            rep.violate(
                format!("C19:routing-differs-between-styles:{field}"),
                cx.wit(None, json!({"left_style": STYLES[i], "right_style": STYLES[j], "detail": detail})),
            );
        } else if ra != rb {
            all_equal = false;
            let mut at = Value::Null;
            for v in versions {
                if ra[&v.text] != rb[&v.text] {
                    at = json!({"version": v.text, "left": ra[&v.text], "right": rb[&v.text]});
                    break;
                }
            }
            rep.violate(
                "C19:routing-differs-between-styles:version-membership",
                cx.wit(None, json!({"left_style": STYLES[i], "right_style": STYLES[j], "detail": at})),
            );
        }
    }
    all_equal
}

fn opt_str(v: &Value) -> Option<&str> {
    v.as_str()
}

fn check_style_against_manifest(
    rep: &mut Report,
    cx: &Ctx,
    style: &str,
    dump: &Value,
    versions: &[MVer],
) {
    let decls = &cx.prog.decls;
    let table = dump[style]["table"].as_array().cloned().unwrap_or_default();
    let routes = &dump[style]["routes"];
    // membership vector of a table row, keyed by (method, path, op, versions-debug)
    let row_key = |r: &Value| -> (String, String, String, String) {
        (
            r["method"].as_str().unwrap_or("").to_string(),
            r["path"].as_str().unwrap_or("").to_string(),
            r["operation_id"].as_str().unwrap_or("").to_string(),
            r["versions"].as_str().unwrap_or("").to_string(),
        )
    };
    let mut present: BTreeMap<(String, String, String, String), Vec<bool>> = BTreeMap::new();
    for (vi, v) in versions.iter().enumerate() {
        for e in routes[&v.text].as_array().cloned().unwrap_or_default() {
            let k = (
                e[0].as_str().unwrap_or("").to_string(),
                e[1].as_str().unwrap_or("").to_string(),
                e[2].as_str().unwrap_or("").to_string(),
                e[3].as_str().unwrap_or("").to_string(),
            );
            present.entry(k).or_insert_with(|| vec![false; versions.len()])[vi] = true;
        }
    }
    let mut claimed = vec![false; table.len()];
    let mut matched: BTreeMap<String, Value> = BTreeMap::new();
    let bad = |rep: &mut Report, attr: &str, d: &Decl, extra: Value| {
        let mut e = extra;
        e["style"] = json!(style);
        rep.violate(format!("C19:attribute-not-honoured:{attr}"), cx.wit(Some(d), e));
    };
    for d in decls {
        let want: Vec<bool> =
            versions.iter().map(|v| d.versions.mrange().contains(v)).collect();
        let cands: Vec<usize> = (0..table.len())
            .filter(|i| {
                !claimed[*i]
                    && table[*i]["method"] == json!(d.method)
                    && table[*i]["path"] == json!(d.listed_path())
            })
            .collect();
        if cands.is_empty() {
            bad(rep, "method-or-path", d, json!({"where": "route table", "observed": "no row with the declared method and path",
                "rows": table.iter().map(|r| json!([r["method"], r["path"]])).collect::<Vec<_>>()}));
            continue;
        }
        let empty = vec![false; versions.len()];
        let vec_of = |i: usize| present.get(&row_key(&table[i])).unwrap_or(&empty).clone();
        let m = cands.iter().copied().find(|i| vec_of(*i) == want);
        let Some(i) = m else {
            let show = |b: &Vec<bool>| {
                versions.iter().zip(b).filter(|(_, x)| **x).map(|(v, _)| v.text.clone()).collect::<Vec<_>>()
            };
            bad(rep, "versions", d, json!({"where": "route table (router.endpoints(Some(v)))",
                "expected_served_at": show(&want),
                "candidate_rows": cands.iter().map(|i| json!({"versions": table[*i]["versions"], "served_at": show(&vec_of(*i))})).collect::<Vec<_>>()}));
            continue;
        };
        claimed[i] = true;
        let r = &table[i];
        matched.insert(d.name.clone(), r.clone());
        rep.count("route_rows_checked", 1);
        let exp_op = d.expected_op();
        if r["operation_id"] != json!(exp_op) {
            bad(rep, "operation_id", d, json!({"where": "route table", "expected": exp_op, "observed": r["operation_id"]}));
        }
        if r["visible"] != json!(!d.is_unpublished()) {
            bad(rep, "unpublished", d, json!({"where": "route table", "expected_visible": !d.is_unpublished(), "observed_visible": r["visible"]}));
        }
        if r["deprecated"] != json!(d.is_deprecated()) {
            bad(rep, "deprecated", d, json!({"where": "route table", "expected": d.is_deprecated(), "observed": r["deprecated"]}));
        }
        if r["tags"] != json!(d.tags) {
            bad(rep, "tags", d, json!({"where": "route table", "expected": d.tags, "observed": r["tags"]}));
        }
        if d.kind == Kind::Endpoint && r["body_content_type"] != json!(d.expected_content_type()) {
            bad(rep, "content_type", d, json!({"where": "route table", "expected": d.expected_content_type(), "observed": r["body_content_type"]}));
        }
        if r["request_body_max_bytes"] != json!(d.limit.value()) {
            bad(rep, "request_body_max_bytes", d, json!({"where": "route table", "expected": d.limit.value(), "observed": r["request_body_max_bytes"]}));
        }
        if r["websocket"] != json!(d.kind == Kind::Channel) {
            bad(rep, "channel-protocol", d, json!({"where": "route table", "expected_websocket": d.kind == Kind::Channel, "observed": r["websocket"]}));
        }
        // (3) doc-text conservation
        let (sum, desc) = (opt_str(&r["summary"]), opt_str(&r["description"]));
        rep.count("doc_comments_checked", 1);
        let suffix = d.doc.exotic.map(|t| format!(":{t}")).unwrap_or_default();
        match conserve(&d.doc, sum, desc) {
            Conserve::Ok => {}
            Conserve::Lost { written, got } => rep.violate(
                format!("C19:doc-text-lost{suffix}"),
                cx.wit(Some(d), json!({"style": style, "summary": sum, "description": desc,
                    "written_without_whitespace": written, "summary_plus_description_without_whitespace": got})),
            ),
            Conserve::Regrouped { written, got } => rep.violate(
                format!("C19:doc-words-regrouped{suffix}"),
                cx.wit(Some(d), json!({"style": style, "summary": sum, "description": desc,
                    "written_words": written, "got_words": got})),
            ),
        }
    }
    for (i, c) in claimed.iter().enumerate() {
        if !c {
            rep.violate(
                "C19:undeclared-endpoint-registered",
                cx.wit(None, json!({"style": style, "row": table[i]})),
            );
        }
    }

    // ---- documents
    for v in versions {
        let Some(text) = dump[style]["docs"][&v.text]["doc"].as_str() else { continue };
        let Ok(doc) = serde_json::from_str::<Value>(text) else {
            rep.violate("C19:document-not-json", cx.wit(None, json!({"style": style, "version": v.text})));
            continue;
        };
        rep.count("documents_checked_against_manifest", 1);
        let mut expected_ops = 0usize;
        for d in decls {
            let inrange = d.versions.mrange().contains(v);
            let op = &doc["paths"][&d.path][d.method.to_lowercase()];
            if inrange && !d.is_unpublished() {
                expected_ops += 1;
                if !op.is_object() {
                    let hidden = matched.get(&d.name).map(|r| r["visible"] == json!(false)).unwrap_or(false);
                    let w = json!({"where": "document", "document_version": v.text, "observed": "operation missing from the document"});
                    if hidden {
                        bad(rep, "unpublished", d, w);
                    } else if !d.versions.mrange().is_all() {
                        bad(rep, "versions", d, w);
                    } else {
                        let mut w = w;
                        w["style"] = json!(style);
                        rep.violate("C19:declared-endpoint-not-documented", cx.wit(Some(d), w));
                    }
                    continue;
                }
                if op["operationId"] != json!(d.expected_op()) {
                    bad(rep, "operation_id", d, json!({"where": "document", "document_version": v.text, "expected": d.expected_op(), "observed": op["operationId"]}));
                }
                let tags = op.get("tags").cloned().unwrap_or(json!([]));
                if tags != json!(d.tags) {
                    bad(rep, "tags", d, json!({"where": "document", "document_version": v.text, "expected": d.tags, "observed": tags}));
                }
                let dep = op.get("deprecated").and_then(|x| x.as_bool()).unwrap_or(false);
                if dep != d.is_deprecated() {
                    bad(rep, "deprecated", d, json!({"where": "document", "document_version": v.text, "expected": d.is_deprecated(), "observed": op.get("deprecated")}));
                }
                let ws = op.get("x-dropshot-websocket").is_some();
                if ws != (d.kind == Kind::Channel) {
                    bad(rep, "channel-protocol", d, json!({"where": "document", "document_version": v.text, "observed_x_dropshot_websocket": ws}));
                }
                // content type of the request body, where the declaration fixes it
                let declared_ct = match d.body {
                    BodyKind::TypedJson | BodyKind::TypedForm => Some(d.expected_content_type()),
                    BodyKind::Multipart => d.content_type.clone(),
                    _ => None,
                };
                if let Some(ct) = declared_ct {
                    let keys: Vec<String> = op["requestBody"]["content"]
                        .as_object()
                        .map(|m| m.keys().cloned().collect())
                        .unwrap_or_default();
                    if keys != vec![ct.clone()] {
                        bad(rep, "content_type", d, json!({"where": "document", "document_version": v.text, "expected": ct, "observed": keys}));
                    }
                }
                // doc comment as documented: conservation again on what the
                // document shows (it may differ from the route table)
                let (sum, desc) = (opt_str(&op["summary"]), opt_str(&op["description"]));
                if conserve(&d.doc, sum, desc) != Conserve::Ok && d.doc.exotic.is_none() {
                    // only report here when the route table was fine (else it
                    // is the same finding twice)
                    let row_ok = table.iter().any(|r| {
                        r["operation_id"] == json!(d.expected_op())
                            && opt_str(&r["summary"]) == sum
                            && opt_str(&r["description"]) == desc
                    });
                    if !row_ok {
                        rep.violate(
                            "C19:doc-text-lost:between-endpoint-and-document",
                            cx.wit(Some(d), json!({"style": style, "document_version": v.text, "summary": sum, "description": desc})),
                        );
                    }
                }
            } else {
                // not to be documented at v -- unless a sibling declaration of
                // the same method and path is
                let sibling = decls.iter().any(|o| {
                    o.name != d.name
                        && o.method == d.method
                        && o.path == d.path
                        && o.versions.mrange().contains(v)
                        && !o.is_unpublished()
                });
                if op.is_object() && !sibling {
                    let attr = if d.is_unpublished() && inrange { "unpublished" } else { "versions" };
                    bad(rep, attr, d, json!({"where": "document", "document_version": v.text,
                        "observed": "operation present in the document", "operation": op["operationId"]}));
                }
            }
        }
        // no operation beyond the declared ones
        let mut seen_ops = 0usize;
        if let Some(paths) = doc["paths"].as_object() {
            for (_, item) in paths {
                if let Some(m) = item.as_object() {
                    seen_ops += m
                        .keys()
                        .filter(|k| ["get", "put", "post", "delete", "options", "head", "patch", "trace"].contains(&k.as_str()))
                        .count();
                }
            }
        }
        if seen_ops != expected_ops {
            rep.violate(
                "C19:document-operation-count-differs-from-declarations",
                cx.wit(None, json!({"style": style, "document_version": v.text, "expected": expected_ops, "observed": seen_ops})),
            );
        }
        // the document's own tag list: exactly the tags written on the declarations it
        // documents (the generated programs define no tags through a TagConfig)
        let listed: std::collections::BTreeSet<String> = doc["tags"]
            .as_array()
            .map(|a| a.iter().filter_map(|t| t["name"].as_str().map(|s| s.to_string())).collect())
            .unwrap_or_default();
        let written: std::collections::BTreeSet<String> = decls
            .iter()
            .filter(|d| d.versions.mrange().contains(v) && !d.is_unpublished())
            .flat_map(|d| d.tags.iter().cloned())
            .collect();
        if listed != written {
            rep.violate(
                "C19:attribute-not-honoured:tags",
                cx.wit(None, json!({"style": style, "where": "the document's top-level tag list", "document_version": v.text,
                    "tags_written_on_documented_declarations": written, "tags_listed": listed})),
            );
        } else {
            rep.count("document_tag_lists_checked", 1);
        }
    }
}

/// false: nothing could be checked (no style produced an ApiDescription)
pub fn check_dump(rep: &mut Report, cx: &Ctx, dump: &Value, versions: &[MVer]) -> bool {
    let agree = check_styles_agree(rep, cx, dump, versions);
    if STYLES.iter().all(|s| dump[*s]["error"].is_string()) {
        rep.extra.insert(
            format!("registration_error_{}", cx.prog.label),
            json!({"fn": dump["fn"]["error"], "tr": dump["tr"]["error"], "stub": dump["stub"]["error"]}),
        );
        return false;
    }
    if agree {
        check_style_against_manifest(rep, cx, "fn", dump, versions);
    } else {
        for s in STYLES {
            if !dump[s]["error"].is_string() {
                check_style_against_manifest(rep, cx, s, dump, versions);
            }
        }
    }
    true
}
