//! Doc-comment shapes.  A `DocSpec` is both the Rust source to put in front of
//! a declaration and the *logical text* the author wrote (decoration such as
//! `///`, the ` * ` gutter of a block comment or the quotes of `#[doc = ".."]`
//! removed).  Shared by E4 (generated programs) and E5 (macro at run time, via
//! `#[path]`).
//!
//! Conservation oracle (property text: "no doc-comment text is lost between
//! summary and description"): the sequence of non-whitespace characters of the
//! logical text equals that of summary ++ description, and the word sequence is
//! the same except that a written word ending in `-` at a line end may be
//! joined with the next one (dropshot documents `right-`/`fully` ->
//! `right-fully`).

use vmon::rng::Rng;

#[derive(Clone, Debug)]
pub struct DocSpec {
    /// class tag (kind of shape), goes into the case class
    pub shape: String,
    /// source items in order; each yields exactly one `#[doc]` attribute (or
    /// is a non-doc attribute such as `#[doc(hidden)]`)
    pub src: Vec<String>,
    /// logical lines as written by the author
    pub text: Vec<String>,
    /// Some(tag): the shape is legal Rust/rustdoc but exotic; findings on it
    /// are keyed with the tag
    pub exotic: Option<&'static str>,
}

impl DocSpec {
    pub fn none() -> DocSpec {
        DocSpec { shape: "none".into(), src: vec![], text: vec![], exotic: None }
    }
    pub fn words(&self) -> Vec<String> {
        words_of(&self.text.join("\n"))
    }
}

pub fn words_of(s: &str) -> Vec<String> {
    s.split_whitespace().map(|w| w.to_string()).collect()
}

pub fn nows(s: &str) -> String {
    s.chars().filter(|c| !c.is_whitespace()).collect()
}

/// Result of comparing written text with (summary, description).
#[derive(Debug, PartialEq, Eq)]
pub enum Conserve {
    Ok,
    /// characters lost or invented
    Lost { written: String, got: String },
    /// characters conserved but word boundaries moved other than by a
    /// line-end hyphen join
    Regrouped { written: Vec<String>, got: Vec<String> },
}

pub fn conserve(doc: &DocSpec, summary: Option<&str>, description: Option<&str>) -> Conserve {
    let written = doc.text.join("\n");
    let mut got_words = words_of(summary.unwrap_or(""));
    got_words.extend(words_of(description.unwrap_or("")));
    let a = nows(&written);
    let b: String = got_words.concat();
    if a != b {
        return Conserve::Lost { written: a, got: b };
    }
    // word boundaries: every output word is the concatenation of k>=1
    // consecutive written words, all but the last ending in '-'
    let w = words_of(&written);
    let mut i = 0;
    for g in &got_words {
        let mut acc = String::new();
        loop {
            if i >= w.len() {
                return Conserve::Regrouped { written: w, got: got_words };
            }
            acc.push_str(&w[i]);
            i += 1;
            if &acc == g {
                break;
            }
            if !(g.starts_with(&acc) && acc.ends_with('-')) {
                return Conserve::Regrouped { written: w, got: got_words };
            }
        }
    }
    if i != w.len() {
        return Conserve::Regrouped { written: w, got: got_words };
    }
    Conserve::Ok
}

const VOCAB: &[&str] = &[
    "alpha", "Beta", "gamma,", "delta.", "the", "of", "list", "widgets", "returns", "a", "I",
    "`code`", "(paren)", "[link](http://x.y/z?a=b&c=d)", "naïve", "日本語", "it's", "\"quoted\"",
    "back\\slash", "{brace}", "{}", "%s", "a/b", "x*y", "e.g.", "1.2.3", "#tag", "<T>", "&amp;",
    "semi;colon", "colon:", "q?", "bang!", "dash-ed", "under_score", "UPPER", "42", "-", "--flag",
    "'single'", "tab\there", "r#\"raw\"#", "$dollar", "@at", "~tilde", "^caret", "|pipe|", "=eq=",
];

fn word(rng: &mut Rng) -> String {
    rng.pick(VOCAB).to_string()
}

/// one line of text: 1..8 words, never starting with '*' and never containing
/// comment delimiters
fn text_line(rng: &mut Rng, max_words: usize) -> String {
    let n = 1 + rng.usize(max_words.max(1));
    let ws: Vec<String> = (0..n).map(|_| word(rng)).collect();
    let sep = if rng.chance(1, 8) { "  " } else { " " };
    ws.join(sep)
}

fn esc_str(s: &str) -> String {
    let mut o = String::new();
    for c in s.chars() {
        match c {
            '\\' => o.push_str("\\\\"),
            '"' => o.push_str("\\\""),
            '\n' => o.push_str("\\n"),
            '\t' => o.push_str("\\t"),
            c => o.push(c),
        }
    }
    o
}

/// `#[doc = "..."]` for a chunk of lines, in one of several spellings
fn attr_item(rng: &mut Rng, lines: &[String]) -> String {
    let lead = if rng.chance(1, 2) { " " } else { "" };
    match rng.below(4) {
        0 => {
            // escaped \n
            let joined =
                lines.iter().map(|l| format!("{lead}{l}")).collect::<Vec<_>>().join("\n");
            format!("#[doc = \"{}\"]", esc_str(&joined))
        }
        1 => {
            // real newlines inside the literal
            let joined =
                lines.iter().map(|l| format!("{lead}{l}")).collect::<Vec<_>>().join("\n");
            let e = esc_str(&joined).replace("\\n", "\n");
            format!("#[doc = \"{e}\"]")
        }
        2 => {
            // raw string (pick a hash count that cannot occur in the text)
            let joined =
                lines.iter().map(|l| format!("{lead}{l}")).collect::<Vec<_>>().join("\n");
            format!("#[doc = r####\"{joined}\"####]")
        }
        _ => {
            // string continuation: "a\n\
            //                       b"
            let parts: Vec<String> =
                lines.iter().map(|l| esc_str(&format!("{lead}{l}"))).collect();
            format!("#[doc = \"{}\"]", parts.join("\\n\\\n      "))
        }
    }
}

fn line_item(rng: &mut Rng, l: &str) -> String {
    if l.is_empty() {
        return if rng.chance(1, 4) { "/// ".to_string() } else { "///".to_string() };
    }
    let first = l.chars().next().unwrap();
    if first.is_alphanumeric() && rng.chance(1, 6) {
        format!("///{l}")
    } else if rng.chance(1, 8) {
        format!("///   {l}")
    } else {
        format!("/// {l}")
    }
}

/// block comment for a chunk of lines.  style 0: decorated, text starts on the
/// line after the opener; 1: decorated, first line on the opener; 2:
/// undecorated; 3: single line `/** text */` (only for one line)
fn block_item(rng: &mut Rng, lines: &[String], style: u64) -> String {
    let gutter = |l: &String| {
        if l.is_empty() {
            " *".to_string()
        } else {
            format!(" * {l}")
        }
    };
    match style {
        0 => {
            let body: Vec<String> = lines.iter().map(gutter).collect();
            format!("/**\n{}\n */", body.join("\n"))
        }
        1 => {
            let mut out = format!("/** {}", lines[0]);
            for l in &lines[1..] {
                out.push('\n');
                out.push_str(&gutter(l));
            }
            out.push_str("\n */");
            out
        }
        2 => {
            let indent = if rng.chance(1, 2) { "    " } else { "" };
            let body: Vec<String> = lines.iter().map(|l| format!("{indent}{l}")).collect();
            format!("/**\n{}\n*/", body.join("\n"))
        }
        _ => format!("/** {} */", lines[0]),
    }
}

/// Generate the logical text first, then choose a spelling.
pub fn gen_doc(rng: &mut Rng) -> DocSpec {
    // ---- logical text
    let structure = rng.below(12);
    let mut text: Vec<String> = vec![];
    let mut tag;
    match structure {
        0 => return DocSpec::none(),
        1 => {
            tag = "summary-only".to_string();
            text.push(text_line(rng, 6));
        }
        2 => {
            tag = "summary+lines".to_string();
            for _ in 0..(2 + rng.usize(3)) {
                text.push(text_line(rng, 6));
            }
        }
        3 | 4 => {
            tag = "paragraphs".to_string();
            text.push(text_line(rng, 6));
            for _ in 0..(1 + rng.usize(3)) {
                text.push(String::new());
                for _ in 0..(1 + rng.usize(3)) {
                    text.push(text_line(rng, 7));
                }
            }
        }
        5 => {
            tag = "leading-blank".to_string();
            for _ in 0..(1 + rng.usize(3)) {
                text.push(String::new());
            }
            text.push(text_line(rng, 5));
            if rng.bool() {
                text.push(String::new());
                text.push(text_line(rng, 5));
            }
        }
        6 => {
            tag = "hyphen-line-end".to_string();
            text.push(text_line(rng, 4));
            if rng.bool() {
                text.push(String::new());
            }
            text.push(format!("{} right-", text_line(rng, 3)));
            text.push(format!("fully {}", text_line(rng, 3)));
            if rng.bool() {
                text.push(format!("{} -", text_line(rng, 2)));
                text.push(text_line(rng, 2));
            }
        }
        7 => {
            tag = "many-blank-lines".to_string();
            text.push(text_line(rng, 4));
            for _ in 0..(2 + rng.usize(2)) {
                for _ in 0..(1 + rng.usize(3)) {
                    text.push(String::new());
                }
                text.push(text_line(rng, 5));
            }
            if rng.bool() {
                text.push(String::new());
                text.push(String::new());
            }
        }
        8 => {
            tag = "summary-blank-desc-hyphen-summary".to_string();
            text.push(format!("{} pre-", text_line(rng, 3)));
            text.push(text_line(rng, 3));
            text.push(String::new());
            text.push(text_line(rng, 3));
        }
        9 => {
            tag = "bullets-dash".to_string();
            text.push(text_line(rng, 4));
            text.push(String::new());
            for _ in 0..(2 + rng.usize(2)) {
                text.push(format!("- {}", text_line(rng, 3)));
            }
        }
        10 => {
            tag = "long-single-paragraph".to_string();
            for _ in 0..(4 + rng.usize(5)) {
                text.push(text_line(rng, 8));
            }
        }
        _ => {
            tag = "indented-code".to_string();
            text.push(text_line(rng, 4));
            text.push(String::new());
            text.push("```".to_string());
            text.push(format!("    let x = {};", word(rng)));
            text.push("```".to_string());
        }
    }

    // ---- spelling
    let spelling = rng.below(8);
    let mut src: Vec<String> = vec![];
    let mut exotic = None;
    // lines may carry leading blanks in the logical text (indented-code);
    // they are whitespace and stay out of the oracle
    match spelling {
        0 | 1 => {
            tag.push_str("|line");
            for l in &text {
                src.push(line_item(rng, l));
            }
        }
        2 => {
            tag.push_str("|block-decorated");
            let st = rng.below(2);
            let st = if st == 1 && text[0].is_empty() { 0 } else { st };
            src.push(block_item(rng, &text, st));
        }
        3 => {
            if text.len() == 1 {
                tag.push_str("|block-oneline");
                src.push(block_item(rng, &text, 3));
            } else {
                tag.push_str("|block-undecorated");
                src.push(block_item(rng, &text, 2));
            }
        }
        4 => {
            tag.push_str("|attr-per-line");
            for l in &text {
                src.push(attr_item(rng, std::slice::from_ref(l)));
            }
        }
        5 => {
            tag.push_str("|attr-multiline");
            src.push(attr_item(rng, &text));
        }
        _ => {
            tag.push_str("|mixed");
            // cut the text into chunks, each chunk spelled differently
            let mut i = 0;
            while i < text.len() {
                let n = 1 + rng.usize(3.min(text.len() - i));
                let chunk = &text[i..i + n];
                match rng.below(4) {
                    0 => {
                        for l in chunk {
                            src.push(line_item(rng, l));
                        }
                    }
                    1 => src.push(attr_item(rng, chunk)),
                    2 => {
                        // a block must contain something and must not start
                        // with a blank first line on the opener
                        src.push(block_item(rng, chunk, 0));
                    }
                    _ => {
                        for l in chunk {
                            src.push(attr_item(rng, std::slice::from_ref(l)));
                        }
                    }
                }
                if rng.chance(1, 10) {
                    src.push("#[doc(hidden)]".to_string());
                }
                i += n;
            }
        }
    }
    // a star bullet written with `///` is plain text for every line
    if (spelling <= 1) && rng.chance(1, 6) && !text.is_empty() {
        text.push(format!("* {}", text_line(rng, 3)));
        src.push(format!("/// {}", text.last().unwrap()));
        tag.push_str("+star-bullet");
    }
    let _ = &mut exotic;
    DocSpec { shape: tag, src, text, exotic }
}

/// Exotic-but-legal shape: markdown bullets (`* item`) or `*emphasis*` at the
/// start of a line inside an *undecorated* block comment or a multi-line
/// `#[doc = ".."]` string.  rustdoc keeps the stars (it only strips a gutter
/// that every line has).
pub fn gen_doc_star_exotic(rng: &mut Rng) -> DocSpec {
    let mut text = vec![text_line(rng, 4), String::new()];
    let emph = rng.chance(1, 3);
    for _ in 0..(2 + rng.usize(2)) {
        if emph {
            text.push(format!("*{}* {}", "very", text_line(rng, 3)));
        } else {
            text.push(format!("* {}", text_line(rng, 3)));
        }
    }
    let (src, how) = if rng.bool() {
        (vec![block_item(rng, &text, 2)], "block-undecorated")
    } else {
        (vec![attr_item(rng, &text)], "attr-multiline")
    };
    DocSpec {
        shape: format!("star-lines|{how}"),
        src,
        text,
        exotic: Some("line-leading-star-in-undecorated-multiline-doc"),
    }
}

/// Exotic-but-legal shape: a doc attribute whose value is a macro call
/// (`#[doc = concat!(..)]`, the `#[doc = include_str!(..)]` idiom).  rustdoc
/// shows the text; an attribute macro sees the unexpanded call.
pub fn gen_doc_macro_exotic(rng: &mut Rng) -> DocSpec {
    let a = text_line(rng, 3);
    let b = text_line(rng, 3);
    let mut src = vec![format!("#[doc = concat!(\"{}\", \" \", \"{}\")]", esc_str(&a), esc_str(&b))];
    let mut text = vec![format!("{a} {b}")];
    if rng.bool() {
        let c = text_line(rng, 4);
        src.push("///".to_string());
        src.push(format!("/// {c}"));
        text.push(String::new());
        text.push(c);
    }
    DocSpec {
        shape: "macro-valued-doc-attr".to_string(),
        src,
        text,
        exotic: Some("doc-attribute-with-macro-value"),
    }
}

#[cfg(test)]
mod tests {
    use super::*;
    #[test]
    fn conserve_rules() {
        let d = DocSpec {
            shape: "t".into(),
            src: vec![],
            text: vec!["Sum it".into(), "".into(), "did right-".into(), "fully so".into()],
            exotic: None,
        };
        assert_eq!(conserve(&d, Some("Sum it"), Some("did right-fully so")), Conserve::Ok);
        assert!(matches!(conserve(&d, Some("Sum it"), Some("did right-fully")), Conserve::Lost { .. }));
        assert!(matches!(
            conserve(&d, Some("Sumit"), Some("did right-fully so")),
            Conserve::Regrouped { .. }
        ));
    }
}
