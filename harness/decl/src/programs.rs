//! E4 `c19-programs`: generate programs, build them in one cargo call, run the
//! oracles.

use crate::gensys;
use crate::live;
use crate::oracle::{self, Ctx};
use crate::spec::{self, Program};
use serde_json::json;
use vmon::report::Report;
use vmon::rng::Rng;

const RULE: &str = "programs = 1 fixed + N seeded sets of ~25 #[endpoint]/#[channel] declarations \
(random method, path+Path<T>, versions in the 4 syntaxes via literals/constants/path constants, tags, operation_id, \
content_type, request_body_max_bytes literal/const, deprecated, unpublished, extractor list, return type, error type, \
doc-comment shape and spelling), each declared as free functions AND as an API trait (impl + stub), compiled against \
the tree under test; one evaluation = one declaration checked in the three ApiDescriptions (route table, documents at \
every version of U + bounds, doc-text conservation) and on two live servers; class = attribute-combination signature \
(kind|method|version syntax+bound spelling|#tags|opid|content type|limit spelling|deprecated|unpublished|extractors|\
return|error|doc shape)";

fn n_seeded(quick: bool) -> usize {
    if let Ok(s) = std::env::var("VMON_DECL_PROGRAMS") {
        if let Ok(n) = s.parse() {
            return n;
        }
    }
    if quick {
        2
    } else {
        59
    }
}

pub fn make_programs(seed: u64, quick: bool) -> Vec<Program> {
    let mut v = vec![spec::fixed_program()];
    for i in 0..n_seeded(quick) {
        let mut rng = Rng::derive(seed, "c19-programs", 0, i as u64);
        let k = 22 + rng.usize(7);
        v.push(spec::gen_program(&mut rng, &format!("seed{seed}-prog{i}"), k));
    }
    v
}

pub fn emit(seed: u64) {
    let p = make_programs(seed, true).pop().unwrap();
    println!("{}", p.render());
    eprintln!("{}", serde_json::to_string_pretty(&p.manifest()).unwrap());
}

pub fn prebuild() {
    let t0 = std::time::Instant::now();
    match gensys::prepare(&[], true) {
        Ok(gs) => {
            let br = gs.build();
            if let Some(f) = br.fatal {
                eprintln!("{f}");
                std::process::exit(1);
            }
            eprintln!(
                "c19-prebuild: dependencies of the generated programs built in {:.1}s ({})",
                t0.elapsed().as_secs_f64(),
                gs.ws.display()
            );
        }
        Err(e) => {
            eprintln!("c19-prebuild: {e}");
            std::process::exit(1);
        }
    }
}

pub fn run(seed: u64, quick: bool, threads: usize) -> Report {
    let mut rep = Report::new("C19", "c19-programs", RULE);
    let programs = make_programs(seed, quick);
    let gs = match gensys::prepare(&programs, false) {
        Ok(g) => g,
        Err(e) => {
            rep.inconclusive("could not write the generated-program workspace");
            rep.extra.insert("prepare_error".into(), json!(e));
            return rep;
        }
    };
    let br = gs.build();
    rep.extra.insert("programs".into(), json!(programs.len()));
    rep.extra.insert("build_wall_s".into(), json!(br.wall_s));
    rep.extra.insert("repo".into(), json!(gensys::repo_dir()));
    if let Some(f) = br.fatal {
        rep.inconclusive("generated programs do not build against the tree under test");
        rep.extra.insert("build_error".into(), json!(f));
        return rep;
    }
    let versions = spec::dump_versions();
    let vnames: Vec<String> = versions.iter().map(|v| v.text.clone()).collect();
    let nthreads = threads.clamp(1, 8).min(programs.len());
    let jobs: Vec<(usize, &Program, &Result<std::path::PathBuf, String>)> =
        programs.iter().enumerate().map(|(i, p)| (i, p, &br.per_slot[i])).collect();
    let next = std::sync::atomic::AtomicUsize::new(0);
    let t_run = std::time::Instant::now();
    let parts: Vec<Report> = std::thread::scope(|sc| {
        let hs: Vec<_> = (0..nthreads)
            .map(|_| {
                sc.spawn(|| {
                    let mut rep = Report::new("C19", "c19-programs", RULE);
                    loop {
                        let j = next.fetch_add(1, std::sync::atomic::Ordering::Relaxed);
                        if j >= jobs.len() {
                            break;
                        }
                        let (i, prog, built) = &jobs[j];
                        let slot = &gs.slots[*i];
                        let cx = Ctx { seed, prog, slot };
                        let bin = match built {
                            Ok(b) => b,
                            Err(excerpt) => {
                                rep.inconclusive("generated program failed to compile");
                                rep.extra.insert(
                                    format!("compile_error_{}", prog.label),
                                    json!(excerpt),
                                );
                                continue;
                            }
                        };
                        rep.count("programs_built", 1);
                        let dump = match gs.run_dump(bin, &vnames, slot) {
                            Ok(d) => d,
                            Err(e) => {
                                rep.inconclusive("generated program failed while dumping");
                                rep.extra.insert(format!("dump_error_{}", prog.label), json!(e));
                                continue;
                            }
                        };
                        if !oracle::check_dump(&mut rep, &cx, &dump, &versions) {
                            continue;
                        }
                        live::check_live(&mut rep, &cx, bin, &versions);
                        for d in &prog.decls {
                            rep.eval(d.class());
                            if rep.want_sample() && (d.name.ends_with('3') || d.name.ends_with('7')) {
                                rep.sample(json!({"program": prog.label, "attribute": d.attr_text(false), "doc": d.doc.src, "class": d.class()}));
                            }
                        }
                        rep.count("declarations", prog.decls.len() as u64);
                    }
                    rep
                })
            })
            .collect();
        hs.into_iter().map(|h| h.join().expect("worker panicked")).collect()
    });
    for p in parts {
        rep.merge(p);
    }
    rep.extra.insert("run_wall_s".into(), json!(t_run.elapsed().as_secs_f64()));
    rep.extra.insert("versions".into(), json!(vnames));
    rep
}
