//! Oracle (4) of C19: the function-based and the trait-impl-based server of a
//! generated program answer an identical probe set identically and as
//! declared.

use crate::gensys::Served;
use crate::oracle::Ctx;
use crate::spec::{self, BodyKind, Decl, Kind};
use serde_json::{json, Value};
use std::time::{Duration, Instant};
use vmon::client::{Conn, ReadErr, Req, Resp};
use vmon::model::MVer;
use vmon::report::Report;

#[derive(Clone, Debug)]
struct Probe {
    what: &'static str,
    version: String,
    /// name of the declaration expected to run (None: nobody, 404/405)
    expect: Option<String>,
    body: Vec<u8>,
    content_type: Option<String>,
    /// the request is valid for the expected handler (else it must be refused
    /// with a 4xx before the handler runs)
    valid: bool,
    upgrade: bool,
}

fn concrete_path(d: &Decl) -> String {
    let mut p = d.path.clone();
    for (i, (n, t)) in d.path_vars.iter().enumerate() {
        p = p.replace(&format!("{{{n}:.*}}"), &t.sample(i));
        p = p.replace(&format!("{{{n}}}"), &t.sample(i));
    }
    if let Some(q) = &d.query {
        let mut parts = vec![];
        for (i, (n, t, req)) in q.iter().enumerate() {
            if *req || i % 2 == 0 {
                parts.push(format!("{n}={}", t.sample(i)));
            }
        }
        if !parts.is_empty() {
            p.push('?');
            p.push_str(&parts.join("&"));
        }
    }
    p
}

fn body_of_len(kind: &BodyKind, n: usize) -> Option<Vec<u8>> {
    match kind {
        BodyKind::TypedJson => {
            // {"s":"aaa"}
            if n < 8 {
                return None;
            }
            let mut b = b"{\"s\":\"".to_vec();
            b.extend(std::iter::repeat(b'a').take(n - 8));
            b.extend_from_slice(b"\"}");
            Some(b)
        }
        BodyKind::TypedForm => {
            if n < 2 {
                return None;
            }
            let mut b = b"s=".to_vec();
            b.extend(std::iter::repeat(b'a').take(n - 2));
            Some(b)
        }
        BodyKind::Untyped => Some(vec![b'u'; n]),
        _ => None,
    }
}

fn natural_ct(d: &Decl) -> Option<String> {
    match d.body {
        BodyKind::TypedJson => Some("application/json".into()),
        BodyKind::TypedForm => Some("application/x-www-form-urlencoded".into()),
        BodyKind::Untyped => Some("application/octet-stream".into()),
        BodyKind::Multipart => Some("multipart/form-data; boundary=XyZ".into()),
        BodyKind::None => None,
    }
}

fn small_body(d: &Decl) -> Vec<u8> {
    match d.body {
        BodyKind::TypedJson => b"{\"s\":\"hi\",\"n\":3}".to_vec(),
        BodyKind::TypedForm => b"s=hi&n=3".to_vec(),
        BodyKind::Untyped => b"raw".to_vec(),
        BodyKind::Multipart => {
            b"--XyZ\r\ncontent-disposition: form-data; name=\"f\"\r\n\r\nv\r\n--XyZ--\r\n".to_vec()
        }
        BodyKind::None => vec![],
    }
}

fn probes_for(d: &Decl, decls: &[Decl], versions: &[MVer]) -> Vec<Probe> {
    let mut out = vec![];
    let release: Vec<&MVer> = versions.iter().filter(|v| v.pre.is_empty()).collect();
    let range = d.versions.mrange();
    let occupant = |v: &MVer| -> Option<String> {
        let o = spec::occupant(decls, &d.method, &d.path, v);
        if o.len() == 1 {
            Some(o[0].name.clone())
        } else {
            None
        }
    };
    let upgrade = d.kind == Kind::Channel;
    // in-range: the first and the last release version in range, plus a
    // pre-release one when there is one
    let inr: Vec<&&MVer> = release.iter().filter(|v| range.contains(v)).collect();
    let mut in_versions: Vec<String> = vec![];
    if let Some(v) = inr.first() {
        in_versions.push(v.text.clone());
    }
    if let Some(v) = inr.last() {
        if !in_versions.contains(&v.text) {
            in_versions.push(v.text.clone());
        }
    }
    if let Some(v) = versions.iter().find(|v| !v.pre.is_empty() && range.contains(v)) {
        in_versions.push(v.text.clone());
    }
    for v in &in_versions {
        out.push(Probe {
            what: "in-range",
            version: v.clone(),
            expect: Some(d.name.clone()),
            body: small_body(d),
            content_type: natural_ct(d),
            valid: true,
            upgrade,
        });
    }
    // out-of-range: nearest versions on both sides
    let outr: Vec<&&MVer> = release.iter().filter(|v| !range.contains(v)).collect();
    let mut out_versions: Vec<String> = vec![];
    for b in range.bounds() {
        // the bound itself if it is out of range (an `until` bound)
        if !range.contains(&b) {
            out_versions.push(b.text.clone());
        }
    }
    if let Some(v) = outr.first() {
        out_versions.push(v.text.clone());
    }
    if let Some(v) = outr.last() {
        out_versions.push(v.text.clone());
    }
    out_versions.sort();
    out_versions.dedup();
    for v in &out_versions {
        let mv = MVer::v(v);
        // whoever the model says serves this (method, path) at v, its request
        // shape may differ from d's; only probe when nobody or a declaration
        // with the same request shape serves it
        let occ = occupant(&mv);
        let same_shape = match &occ {
            None => true,
            Some(n) => {
                let o = decls.iter().find(|x| &x.name == n).unwrap();
                o.body == d.body && o.query.is_none() && d.query.is_none() && o.kind == d.kind
            }
        };
        if !same_shape {
            continue;
        }
        out.push(Probe {
            what: "out-of-range",
            version: v.clone(),
            expect: occ,
            body: small_body(d),
            content_type: natural_ct(d),
            valid: true,
            upgrade,
        });
    }
    // a wildcard route also answers its parent path (empty remainder), at the versions of
    // its range and at no others
    if d.has_wildcard() {
        let more: Vec<Probe> = out
            .iter()
            .filter(|p| p.what == "in-range" || p.what == "out-of-range")
            .map(|p| Probe { what: if p.what == "in-range" { "empty-wildcard-in-range" } else { "empty-wildcard-out-of-range" }, ..p.clone() })
            .collect();
        out.extend(more);
    }
    // body limit: exactly at / one byte over the declared (or default) limit
    if let (Some(v), true) =
        (in_versions.first(), matches!(d.body, BodyKind::TypedJson | BodyKind::TypedForm | BodyKind::Untyped))
    {
        let lim = d.effective_limit();
        if let Some(b) = body_of_len(&d.body, lim) {
            out.push(Probe {
                what: "body-at-limit",
                version: v.clone(),
                expect: Some(d.name.clone()),
                body: b,
                content_type: natural_ct(d),
                valid: true,
                upgrade: false,
            });
        }
        if let Some(b) = body_of_len(&d.body, lim + 1) {
            out.push(Probe {
                what: "body-over-limit",
                version: v.clone(),
                expect: Some(d.name.clone()),
                body: b,
                content_type: natural_ct(d),
                valid: false,
                upgrade: false,
            });
        }
        // wrong content type for a typed body
        match d.body {
            BodyKind::TypedJson => out.push(Probe {
                what: "wrong-content-type",
                version: v.clone(),
                expect: Some(d.name.clone()),
                body: b"s=hi&n=3".to_vec(),
                content_type: Some("application/x-www-form-urlencoded".into()),
                valid: false,
                upgrade: false,
            }),
            BodyKind::TypedForm => out.push(Probe {
                what: "wrong-content-type",
                version: v.clone(),
                expect: Some(d.name.clone()),
                body: b"{\"s\":\"hi\",\"n\":3}".to_vec(),
                content_type: Some("application/json".into()),
                valid: false,
                upgrade: false,
            }),
            _ => {}
        }
    }
    out
}

fn send(addr: std::net::SocketAddr, d: &Decl, p: &Probe, uid: u64) -> Result<Resp, String> {
    let path = if p.what.starts_with("empty-wildcard") {
        // the wildcard's empty match: the request names exactly the parent path
        let mut parent = d.clone();
        if let Some(i) = parent.path.rfind("/{") {
            parent.path.truncate(i);
        }
        concrete_path(&parent)
    } else {
        concrete_path(d)
    };
    let mut r = Req::new(&d.method, &path)
        .header("x-api-version", &p.version)
        .uid(uid)
        .header("connection", if p.upgrade { "Upgrade" } else { "close" });
    if p.upgrade {
        r = r
            .header("upgrade", "websocket")
            .header("sec-websocket-version", "13")
            .header("sec-websocket-key", "dGhlIHNhbXBsZSBub25jZQ==");
    }
    if let Some(ct) = &p.content_type {
        r = r.header("content-type", ct);
    }
    if !p.body.is_empty() {
        r = r.body(&p.body);
    }
    let mut c = Conn::connect(addr).map_err(|e| format!("connect: {e}"))?;
    c.timeout = Duration::from_secs(20);
    c.send(&r.encode()).map_err(|e| format!("send: {e}"))?;
    match c.read_response(d.method == "HEAD") {
        Ok(resp) => Ok(resp),
        Err(ReadErr::Malformed(why, _)) => Err(format!("malformed response: {why}")),
        Err(e) => Err(format!("io: {}", format!("{e:?}").chars().take(120).collect::<String>())),
    }
}

/// response body with request ids removed
fn norm_body(r: &Resp) -> Value {
    match serde_json::from_slice::<Value>(&r.body) {
        Ok(Value::Object(mut m)) => {
            m.remove("request_id");
            Value::Object(m)
        }
        Ok(v) => v,
        Err(_) => json!(String::from_utf8_lossy(&r.body)),
    }
}

pub fn check_live(
    rep: &mut Report,
    cx: &Ctx,
    bin: &std::path::Path,
    versions: &[MVer],
) {
    let decls = &cx.prog.decls;
    let mut srv = match Served::start(bin, spec::DEFAULT_BODY_MAX) {
        Ok(s) => s,
        Err(e) => {
            rep.inconclusive("generated program did not start its servers");
            rep.extra.insert(format!("serve_error_{}", cx.slot), json!(e));
            return;
        }
    };
    // a server that resolves no versions looks every request up with "no version", which
    // matches every range: declared version ranges could not be honoured, so such a
    // server must not start for an API that has any (and must start for one that has none)
    let any_versioned = decls.iter().any(|d| !d.versions.mrange().is_all());
    let want = if any_versioned { "refused" } else { "started" };
    for (style, got) in [("fn", &srv.unversioned_start.0), ("tr", &srv.unversioned_start.1)] {
        rep.count("unversioned_start_attempts", 1);
        if got != want && got != "?" {
            rep.violate(
                "C19:attribute-not-honoured:versions",
                cx.wit(None, json!({"style": style, "where": "a server without a version policy", "expected": want, "observed": got,
                    "declarations_with_a_version_range": decls.iter().filter(|d| !d.versions.mrange().is_all()).count()})),
            );
        }
    }
    let mut uid = 1u64;
    for d in decls {
        for p in probes_for(d, decls, versions) {
            uid += 1;
            let ra = send(srv.fn_addr, d, &p, uid);
            let rb = send(srv.tr_addr, d, &p, uid);
            let (ra, rb) = match (ra, rb) {
                (Ok(a), Ok(b)) => (a, b),
                (a, b) => {
                    // I/O trouble is never a verdict -- unless the two servers
                    // differ in whether they answer at all in a well-formed way
                    let ea = a.as_ref().err().cloned();
                    let eb = b.as_ref().err().cloned();
                    if ea.as_deref().map(|e| e.starts_with("malformed")).unwrap_or(false)
                        || eb.as_deref().map(|e| e.starts_with("malformed")).unwrap_or(false)
                    {
                        rep.violate("C18:malformed-response", cx.wit(Some(d), json!({"probe": p.what, "fn": ea, "tr": eb})));
                    } else {
                        rep.inconclusive("probe I/O error");
                    }
                    let _ = srv.log();
                    continue;
                }
            };
            rep.count("probes", 2);
            rep.count(&format!("probe_{}", p.what), 2);
            // the handler log; channel handlers run after the 101, wait for them
            let expect_hit = p.valid && p.expect.is_some();
            let (mut ha, mut hb) = (vec![], vec![]);
            let t0 = Instant::now();
            let mut log_failed = false;
            loop {
                match srv.log() {
                    Ok((a, b)) => {
                        ha.extend(a);
                        hb.extend(b);
                    }
                    Err(_) => {
                        log_failed = true;
                        break;
                    }
                }
                let need_wait = p.upgrade
                    && expect_hit
                    && ra.status == 101
                    && rb.status == 101
                    && (ha.is_empty() || hb.is_empty());
                if !need_wait || t0.elapsed() > Duration::from_secs(10) {
                    break;
                }
                std::thread::sleep(Duration::from_millis(5));
            }
            if log_failed {
                rep.inconclusive("generated program stopped answering on its control channel");
                return;
            }
            let witness = |extra: Value| {
                let mut w = json!({
                    "probe": p.what, "method": d.method, "target": concrete_path(d),
                    "x-api-version": p.version, "content-type": p.content_type, "body_len": p.body.len(),
                    "expected_handler": p.expect, "request_valid_for_handler": p.valid,
                    "fn_server": {"status": ra.status, "body": norm_body(&ra), "hits": ha},
                    "tr_server": {"status": rb.status, "body": norm_body(&rb), "hits": hb},
                });
                if let Value::Object(m) = extra {
                    for (k, v) in m {
                        w[k] = v;
                    }
                }
                cx.wit(Some(d), w)
            };
            // ---- both styles answer identically
            let strip = |hs: &Vec<Value>| -> Vec<Value> { hs.clone() };
            if ra.status != rb.status || norm_body(&ra) != norm_body(&rb) || strip(&ha) != strip(&hb) {
                if p.upgrade && ra.status == rb.status && (ha.is_empty() != hb.is_empty()) {
                    rep.inconclusive("channel handler not observed within the watchdog");
                } else {
                    rep.violate("C19:routing-differs-between-styles:live", witness(json!({})));
                }
                continue;
            }
            // ---- and as declared
            let ran: Vec<String> =
                ha.iter().map(|h| h["decl"].as_str().unwrap_or("").to_string()).collect();
            match (&p.expect, p.valid) {
                (Some(name), true) => {
                    if ran != vec![name.clone()] {
                        if p.upgrade && ran.is_empty() && ra.status == 101 {
                            rep.inconclusive("channel handler not observed within the watchdog");
                            continue;
                        }
                        let attr = match p.what {
                            "body-at-limit" => "C19:declared-body-limit-not-enforced".to_string(),
                            "out-of-range" | "in-range" => {
                                if d.versions.mrange().is_all() && decls.iter().filter(|o| o.method == d.method && o.path == d.path).count() == 1 {
                                    "C19:attribute-not-honoured:method-or-path".to_string()
                                } else {
                                    "C19:attribute-not-honoured:versions".to_string()
                                }
                            }
                            _ => "C19:declared-endpoint-not-served".to_string(),
                        };
                        rep.violate(attr, witness(json!({"where": "live", "handlers_run": ran})));
                        continue;
                    }
                    // the handler was told what the declaration says
                    let h = &ha[0];
                    let o = decls.iter().find(|x| &x.name == name).unwrap();
                    if h["op"] != json!(o.expected_op()) {
                        rep.violate("C19:attribute-not-honoured:operation_id", witness(json!({"where": "live (rqctx.endpoint.operation_id)"})));
                    }
                    if h["limit"] != json!(o.limit.value()) {
                        rep.violate("C19:attribute-not-honoured:request_body_max_bytes", witness(json!({"where": "live (rqctx.endpoint.request_body_max_bytes)"})));
                    }
                    if o.kind == Kind::Endpoint && h["ctype"] != json!(o.expected_content_type()) {
                        rep.violate("C19:attribute-not-honoured:content_type", witness(json!({"where": "live (rqctx.endpoint.body_content_type)"})));
                    }
                    if p.upgrade && ra.status != 101 {
                        rep.violate("C19:attribute-not-honoured:channel-protocol", witness(json!({"where": "live"})));
                    }
                    if !p.upgrade && !(200..400).contains(&ra.status) {
                        rep.violate("C19:declared-endpoint-not-served", witness(json!({"where": "live", "why": "handler ran but the status is an error"})));
                    }
                }
                (Some(_), false) => {
                    // must be refused before the handler runs
                    if !ran.is_empty() || !(400..500).contains(&ra.status) {
                        let sig = match p.what {
                            "body-over-limit" => "C19:declared-body-limit-not-enforced",
                            "wrong-content-type" => "C19:attribute-not-honoured:content_type",
                            _ => "C19:invalid-request-reached-handler",
                        };
                        rep.violate(sig, witness(json!({"where": "live", "handlers_run": ran})));
                    }
                }
                (None, _) => {
                    if !ran.is_empty() || !(ra.status == 404 || ra.status == 405) {
                        rep.violate("C19:attribute-not-honoured:versions", witness(json!({"where": "live", "why": "no declaration covers this version, yet the request was not answered 404/405", "handlers_run": ran})));
                    }
                }
            }
        }
    }
}
