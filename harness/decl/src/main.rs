//! C19 engines: see ../CONTRIBUTING.md and DESIGN.md §6 C19.
//!
//!   vmon_decl c19-programs --seed N --tier quick|thorough --out FILE
//!   vmon_decl c19-prebuild            (bin/setup: build the generated programs'
//!                                      dependencies once, genfast profile)
use vmon::report::Report;

mod docgen;
mod gensys;
mod live;
mod oracle;
mod programs;
mod spec;

pub struct Args {
    pub engine: String,
    pub seed: u64,
    pub tier: String,
    pub out: String,
    pub threads: usize,
}

fn usage() -> ! {
    eprintln!("usage: <bin> <engine> --seed N --tier quick|thorough --out FILE [--threads N]");
    std::process::exit(2)
}

fn parse_args() -> Args {
    let mut a = std::env::args().skip(1);
    let engine = a.next().unwrap_or_else(|| usage());
    let mut args = Args { engine, seed: 1, tier: "quick".into(), out: String::new(), threads: 16 };
    while let Some(k) = a.next() {
        match k.as_str() {
            "--seed" => args.seed = a.next().and_then(|s| s.parse().ok()).unwrap_or_else(|| usage()),
            "--tier" => args.tier = a.next().unwrap_or_else(|| usage()),
            "--out" => args.out = a.next().unwrap_or_else(|| usage()),
            "--threads" => args.threads = a.next().and_then(|s| s.parse().ok()).unwrap_or_else(|| usage()),
            _ => usage(),
        }
    }
    args
}

/// run `f(shard)` on `n` threads and merge the reports
#[allow(dead_code)]
fn sharded<F>(n: usize, f: F) -> Report
where
    F: Fn(u64) -> Report + Send + Sync + 'static,
{
    let f = std::sync::Arc::new(f);
    let hs: Vec<_> = (0..n)
        .map(|i| {
            let f = f.clone();
            std::thread::Builder::new()
                .name(format!("shard{i}"))
                .stack_size(16 << 20)
                .spawn(move || f(i as u64))
                .unwrap()
        })
        .collect();
    let mut it = hs.into_iter();
    let mut rep = it.next().unwrap().join().expect("shard thread panicked");
    for h in it {
        rep.merge(h.join().expect("shard thread panicked"));
    }
    rep
}

fn main() {
    vmon::panics::install();
    let args = parse_args();
    let t0 = std::time::Instant::now();
    let _quick = args.tier != "thorough";
    let mut rep: Report = match args.engine.as_str() {
        "c19-programs" => programs::run(args.seed, _quick, args.threads),
        "c19-prebuild" => {
            programs::prebuild();
            return;
        }
        "c19-emit" => {
            // debugging aid: print the program + manifest of one seed
            programs::emit(args.seed);
            return;
        }
        _ => usage(),
    };
    for p in vmon::panics::take_unexpected() {
        rep.violate(
            format!("{}:unexpected-panic", rep.property),
            serde_json::json!({"location": p.location, "message": p.message, "thread": p.thread}),
        );
    }
    let mut j = rep.to_json();
    j["wall_s"] = serde_json::json!(t0.elapsed().as_secs_f64());
    j["seed"] = serde_json::json!(args.seed);
    j["tier"] = serde_json::json!(args.tier);
    let text = serde_json::to_string_pretty(&j).unwrap();
    if args.out.is_empty() {
        println!("{text}");
    } else {
        std::fs::write(&args.out, text).expect("write report");
    }
}
