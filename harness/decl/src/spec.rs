//! What a generated declaration SAYS (the manifest), the random generator of
//! declaration sets, and the renderer that writes them out as a Rust program
//! declaring the API three ways (free functions, API trait + impl, trait stub).

use crate::docgen::{self, DocSpec};
use serde_json::{json, Value};
use std::collections::{BTreeMap, BTreeSet};
use vmon::model::{MRange, MVer};
use vmon::rng::Rng;

pub const DEFAULT_BODY_MAX: usize = 1024;

/// release versions used as range bounds in declarations
pub const BOUND_POOL: [(u64, u64, u64); 8] =
    [(0, 9, 0), (1, 0, 0), (1, 0, 1), (1, 1, 0), (1, 2, 3), (2, 0, 0), (3, 1, 4), (10, 0, 0)];

/// extra versions (besides vmon::model::universe() and the pool) at which the
/// programs dump documents / route tables
pub const EXTRA_VERSIONS: [&str; 9] =
    ["0.0.0", "1.2.2", "1.2.4", "2.0.0-rc.1", "3.1.3", "3.1.5", "9.9.9", "10.0.1", "11.0.0"];

pub fn dump_versions() -> Vec<MVer> {
    let mut seen = BTreeSet::new();
    let mut out = vec![];
    let mut push = |s: String| {
        if seen.insert(s.clone()) {
            out.push(MVer::v(&s));
        }
    };
    for v in vmon::model::universe() {
        push(v.text.clone());
    }
    for (a, b, c) in BOUND_POOL {
        push(format!("{a}.{b}.{c}"));
    }
    for v in EXTRA_VERSIONS {
        push(v.to_string());
    }
    out
}

#[derive(Clone, Debug, PartialEq, Eq)]
pub enum Via {
    Lit,
    Const,
    PathConst,
}

#[derive(Clone, Debug)]
pub struct VB {
    pub v: (u64, u64, u64),
    pub via: Via,
}

impl VB {
    pub fn text(&self) -> String {
        format!("{}.{}.{}", self.v.0, self.v.1, self.v.2)
    }
    fn ident(&self) -> String {
        format!("V_{}_{}_{}", self.v.0, self.v.1, self.v.2)
    }
    pub fn tokens(&self) -> String {
        match self.via {
            Via::Lit => format!("\"{}\"", self.text()),
            Via::Const => self.ident(),
            Via::PathConst => format!("vers::{}", self.ident()),
        }
    }
    fn via_tag(&self) -> &'static str {
        match self.via {
            Via::Lit => "lit",
            Via::Const => "const",
            Via::PathConst => "pathconst",
        }
    }
}

#[derive(Clone, Debug)]
pub enum VerSpec {
    Omitted,
    All,
    From(VB),
    Until(VB),
    FromUntil(VB, VB),
}

impl VerSpec {
    pub fn tokens(&self, sp: &str) -> Option<String> {
        match self {
            VerSpec::Omitted => None,
            VerSpec::All => Some("..".to_string()),
            VerSpec::From(a) => Some(format!("{}{sp}..", a.tokens())),
            VerSpec::Until(b) => Some(format!("..{sp}{}", b.tokens())),
            VerSpec::FromUntil(a, b) => Some(format!("{}{sp}..{sp}{}", a.tokens(), b.tokens())),
        }
    }
    pub fn mrange(&self) -> MRange {
        match self {
            VerSpec::Omitted | VerSpec::All => MRange::All,
            VerSpec::From(a) => MRange::From(MVer::v(&a.text())),
            VerSpec::Until(b) => MRange::Until(MVer::v(&b.text())),
            VerSpec::FromUntil(a, b) => MRange::FromUntil(MVer::v(&a.text()), MVer::v(&b.text())),
        }
    }
    pub fn class(&self) -> String {
        match self {
            VerSpec::Omitted => "v-omitted".into(),
            VerSpec::All => "v-all".into(),
            VerSpec::From(a) => format!("v-from:{}", a.via_tag()),
            VerSpec::Until(a) => format!("v-until:{}", a.via_tag()),
            VerSpec::FromUntil(a, b) => format!("v-fromuntil:{}/{}", a.via_tag(), b.via_tag()),
        }
    }
    pub fn show(&self) -> String {
        self.tokens("").unwrap_or_else(|| "(omitted)".to_string())
    }
}

#[derive(Clone, Debug)]
pub enum LimitSpec {
    None,
    Lit(usize, u8),
    Const(usize),
    PathConst(usize),
}

impl LimitSpec {
    pub fn value(&self) -> Option<usize> {
        match self {
            LimitSpec::None => None,
            LimitSpec::Lit(n, _) | LimitSpec::Const(n) | LimitSpec::PathConst(n) => Some(*n),
        }
    }
    pub fn tokens(&self) -> Option<String> {
        match self {
            LimitSpec::None => None,
            LimitSpec::Lit(n, 0) => Some(format!("{n}")),
            LimitSpec::Lit(n, 1) => Some(format!("{n}usize")),
            LimitSpec::Lit(n, 2) => Some(format!("{n:#x}")),
            LimitSpec::Lit(n, _) => {
                // digit grouping
                let s = n.to_string();
                let mut o = String::new();
                for (i, ch) in s.chars().enumerate() {
                    if i > 0 && (s.len() - i) % 3 == 0 {
                        o.push('_');
                    }
                    o.push(ch);
                }
                Some(o)
            }
            LimitSpec::Const(n) => Some(format!("LIM_{n}")),
            LimitSpec::PathConst(n) => Some(format!("limits::LIM_{n}")),
        }
    }
    pub fn class(&self) -> &'static str {
        match self {
            LimitSpec::None => "lim-none",
            LimitSpec::Lit(..) => "lim-lit",
            LimitSpec::Const(_) => "lim-const",
            LimitSpec::PathConst(_) => "lim-pathconst",
        }
    }
}

pub const LIMIT_POOL: [usize; 9] = [16, 100, 300, 1023, 1024, 1025, 2048, 5000, 70000];

#[derive(Clone, Debug, PartialEq, Eq)]
pub enum BodyKind {
    None,
    TypedJson,
    TypedForm,
    Untyped,
    Multipart,
}

impl BodyKind {
    pub fn tag(&self) -> &'static str {
        match self {
            BodyKind::None => "nobody",
            BodyKind::TypedJson => "typed-json",
            BodyKind::TypedForm => "typed-form",
            BodyKind::Untyped => "untyped",
            BodyKind::Multipart => "multipart",
        }
    }
}

#[derive(Clone, Debug, PartialEq, Eq)]
pub enum RetKind {
    Ok,
    OkB,
    Created,
    Accepted,
    Deleted,
    UpdatedNoContent,
    SeeOther,
    Found,
    TempRedirect,
    HeadersOk,
    Freeform,
}

impl RetKind {
    pub fn ty(&self) -> &'static str {
        match self {
            RetKind::Ok => "HttpResponseOk<Echo>",
            RetKind::OkB => "HttpResponseOk<EchoB>",
            RetKind::Created => "HttpResponseCreated<Echo>",
            RetKind::Accepted => "HttpResponseAccepted<EchoB>",
            RetKind::Deleted => "HttpResponseDeleted",
            RetKind::UpdatedNoContent => "HttpResponseUpdatedNoContent",
            RetKind::SeeOther => "HttpResponseSeeOther",
            RetKind::Found => "HttpResponseFound",
            RetKind::TempRedirect => "HttpResponseTemporaryRedirect",
            RetKind::HeadersOk => "HttpResponseHeaders<HttpResponseOk<Echo>, EchoHeaders>",
            RetKind::Freeform => "http::Response<Body>",
        }
    }
    pub fn expr(&self) -> &'static str {
        match self {
            RetKind::Ok => "Ok(HttpResponseOk(e))",
            RetKind::OkB => "Ok(HttpResponseOk(genrt::echo_b(&e)))",
            RetKind::Created => "Ok(HttpResponseCreated(e))",
            RetKind::Accepted => "Ok(HttpResponseAccepted(genrt::echo_b(&e)))",
            RetKind::Deleted => "Ok(HttpResponseDeleted())",
            RetKind::UpdatedNoContent => "Ok(HttpResponseUpdatedNoContent())",
            RetKind::SeeOther => "Ok(http_response_see_other(format!(\"/moved/{}\", e.decl))?)",
            RetKind::Found => "Ok(http_response_found(format!(\"/moved/{}\", e.decl))?)",
            RetKind::TempRedirect => {
                "Ok(http_response_temporary_redirect(format!(\"/moved/{}\", e.decl))?)"
            }
            RetKind::HeadersOk => {
                "Ok(HttpResponseHeaders::new(HttpResponseOk(e.clone()), EchoHeaders { decl: e.decl.clone() }))"
            }
            RetKind::Freeform => {
                "Ok(http::Response::builder().status(200).header(\"x-echo-decl\", e.decl.clone()).body(Body::from(serde_json::to_string(&e).unwrap())).unwrap())"
            }
        }
    }
    pub fn tag(&self) -> &'static str {
        match self {
            RetKind::Ok => "ok",
            RetKind::OkB => "okb",
            RetKind::Created => "created",
            RetKind::Accepted => "accepted",
            RetKind::Deleted => "deleted",
            RetKind::UpdatedNoContent => "nocontent",
            RetKind::SeeOther => "seeother",
            RetKind::Found => "found",
            RetKind::TempRedirect => "tempredirect",
            RetKind::HeadersOk => "headers",
            RetKind::Freeform => "freeform",
        }
    }
}

const RET_ALL: [RetKind; 11] = [
    RetKind::Ok,
    RetKind::OkB,
    RetKind::Created,
    RetKind::Accepted,
    RetKind::Deleted,
    RetKind::UpdatedNoContent,
    RetKind::SeeOther,
    RetKind::Found,
    RetKind::TempRedirect,
    RetKind::HeadersOk,
    RetKind::Freeform,
];

#[derive(Clone, Debug, PartialEq, Eq)]
pub enum PTy {
    Str,
    U32,
    I64,
    Bool,
    Rest,
}

impl PTy {
    fn ty(&self) -> &'static str {
        match self {
            PTy::Str => "String",
            PTy::U32 => "u32",
            PTy::I64 => "i64",
            PTy::Bool => "bool",
            PTy::Rest => "Vec<String>",
        }
    }
    pub fn sample(&self, idx: usize) -> String {
        match self {
            PTy::Str => format!("val{idx}"),
            PTy::U32 => format!("{}", 7 + idx),
            PTy::I64 => format!("-{}", 3 + idx),
            PTy::Bool => "true".to_string(),
            PTy::Rest => "x/y/z".to_string(),
        }
    }
}

#[derive(Clone, Debug, PartialEq, Eq)]
pub enum Kind {
    Endpoint,
    Channel,
}

#[derive(Clone, Debug)]
pub struct Decl {
    pub name: String,
    pub kind: Kind,
    pub method: String,
    pub path: String,
    pub path_vars: Vec<(String, PTy)>,
    /// (name, type, required)
    pub query: Option<Vec<(String, PTy, bool)>>,
    pub body: BodyKind,
    pub ret: RetKind,
    pub custom_error: bool,
    pub versions: VerSpec,
    pub tags: Vec<String>,
    pub operation_id: Option<String>,
    pub content_type: Option<String>,
    pub limit: LimitSpec,
    pub deprecated: Option<bool>,
    pub unpublished: Option<bool>,
    pub doc: DocSpec,
    /// layout choices (do not change meaning)
    pub attr_perm: u64,
    pub multiline_attr: bool,
    pub trailing_comma: bool,
    pub qualified_macro: bool,
    pub doc_after_attr: usize,
    pub query_first: bool,
    pub range_space: bool,
}

impl Decl {
    pub fn expected_op(&self) -> String {
        self.operation_id.clone().unwrap_or_else(|| self.name.clone())
    }
    pub fn expected_content_type(&self) -> String {
        self.content_type.clone().unwrap_or_else(|| "application/json".to_string())
    }
    pub fn is_unpublished(&self) -> bool {
        self.unpublished == Some(true)
    }
    pub fn is_deprecated(&self) -> bool {
        self.deprecated == Some(true)
    }
    pub fn effective_limit(&self) -> usize {
        self.limit.value().unwrap_or(DEFAULT_BODY_MAX)
    }
    /// path as the router lists it (`{x:.*}` is listed as `{x}`)
    pub fn listed_path(&self) -> String {
        self.path.replace(":.*}", "}")
    }
    pub fn has_wildcard(&self) -> bool {
        self.path.contains(":.*}")
    }

    /// case class: the attribute-combination signature
    pub fn class(&self) -> String {
        let b = |o: &Option<bool>| match o {
            None => "-",
            Some(true) => "T",
            Some(false) => "F",
        };
        format!(
            "{}|{}|{}|tags{}|{}|ct:{}|{}|dep{}|unp{}|{}{}{}|{}|{}|doc:{}",
            if self.kind == Kind::Channel { "channel" } else { "endpoint" },
            self.method,
            self.versions.class(),
            self.tags.len().min(2),
            if self.operation_id.is_some() { "opid" } else { "opdefault" },
            match self.content_type.as_deref() {
                None => "-",
                Some("application/json") => "json",
                Some("application/x-www-form-urlencoded") => "form",
                Some(_) => "multipart",
            },
            self.limit.class(),
            b(&self.deprecated),
            b(&self.unpublished),
            if self.path_vars.is_empty() { "" } else { "P" },
            if self.query.is_some() { "Q" } else { "" },
            self.body.tag(),
            self.ret.tag(),
            if self.custom_error { "generror" } else { "httperror" },
            self.doc.shape,
        )
    }

    pub fn manifest(&self) -> Value {
        json!({
            "name": self.name,
            "kind": if self.kind == Kind::Channel { "channel" } else { "endpoint" },
            "method": self.method,
            "path": self.path,
            "path_vars": self.path_vars.iter().map(|(n, t)| json!([n, t.ty()])).collect::<Vec<_>>(),
            "query": self.query.as_ref().map(|q| q.iter().map(|(n, t, r)| json!([n, t.ty(), r])).collect::<Vec<_>>()),
            "body": self.body.tag(),
            "return": self.ret.ty(),
            "error": if self.custom_error { "GenError" } else { "HttpError" },
            "versions": self.versions.show(),
            "tags": self.tags,
            "operation_id": self.operation_id,
            "expected_operation_id": self.expected_op(),
            "content_type": self.content_type,
            "request_body_max_bytes": self.limit.tokens(),
            "request_body_max_bytes_value": self.limit.value(),
            "deprecated": self.deprecated,
            "unpublished": self.unpublished,
            "doc_shape": self.doc.shape,
            "doc_source": self.doc.src,
            "doc_text": self.doc.text,
            "doc_exotic": self.doc.exotic,
        })
    }

    // ------------------------------------------------------------ rendering

    /// the `key = value` items of the attribute, in their (permuted) order
    pub fn attr_items(&self) -> Vec<String> {
        let mut items: Vec<String> = vec![];
        match self.kind {
            Kind::Endpoint => items.push(format!("method = {}", self.method)),
            Kind::Channel => items.push("protocol = WEBSOCKETS".to_string()),
        }
        items.push(format!("path = {:?}", self.path));
        if let Some(v) = self.versions.tokens(if self.range_space { " " } else { "" }) {
            items.push(format!("versions = {v}"));
        }
        if !self.tags.is_empty() || self.attr_perm % 7 == 0 {
            let t: Vec<String> = self.tags.iter().map(|t| format!("{t:?}")).collect();
            items.push(format!("tags = [{}]", t.join(", ")));
        }
        if let Some(op) = &self.operation_id {
            items.push(format!("operation_id = {op:?}"));
        }
        if let Some(ct) = &self.content_type {
            items.push(format!("content_type = {ct:?}"));
        }
        if let Some(l) = self.limit.tokens() {
            items.push(format!("request_body_max_bytes = {l}"));
        }
        if let Some(d) = self.deprecated {
            items.push(format!("deprecated = {d}"));
        }
        if let Some(u) = self.unpublished {
            items.push(format!("unpublished = {u}"));
        }
        // `versions = ..` style ranges end at the next comma, so any order is
        // fine; permute deterministically
        let mut rng = Rng::new(self.attr_perm);
        rng.shuffle(&mut items);
        items
    }

    /// what the attribute macro receives as its argument token stream
    pub fn attr_inner(&self) -> String {
        format!("{}{}", self.attr_items().join(", "), if self.trailing_comma { "," } else { "" })
    }

    pub fn attr_text(&self, for_trait: bool) -> String {
        let items = self.attr_items();
        let mac = match self.kind {
            Kind::Endpoint => "endpoint",
            Kind::Channel => "channel",
        };
        let mac = if self.qualified_macro && !for_trait {
            format!("dropshot::{mac}")
        } else {
            mac.to_string()
        };
        if self.multiline_attr {
            let mut s = format!("#[{mac} {{\n");
            for (i, it) in items.iter().enumerate() {
                let last = i + 1 == items.len();
                s.push_str(&format!(
                    "    {it}{}\n",
                    if !last || self.trailing_comma { "," } else { "" }
                ));
            }
            s.push_str("}]");
            s
        } else {
            format!(
                "#[{mac} {{ {}{} }}]",
                items.join(", "),
                if self.trailing_comma { "," } else { "" }
            )
        }
    }

    fn p_struct(&self) -> String {
        format!("P{}", self.name)
    }
    fn q_struct(&self) -> String {
        format!("Q{}", self.name)
    }
    fn b_struct(&self) -> String {
        format!("B{}", self.name)
    }

    /// (name, type) of the extractor arguments in signature order
    fn extractor_args(&self) -> Vec<(String, String)> {
        let mut shared = vec![];
        if !self.path_vars.is_empty() {
            shared.push(("path".to_string(), format!("Path<{}>", self.p_struct())));
        }
        if self.query.is_some() {
            let q = ("query".to_string(), format!("Query<{}>", self.q_struct()));
            if self.query_first {
                shared.insert(0, q);
            } else {
                shared.push(q);
            }
        }
        match self.body {
            BodyKind::None => {}
            BodyKind::TypedJson | BodyKind::TypedForm => {
                shared.push(("body".to_string(), format!("TypedBody<{}>", self.b_struct())))
            }
            BodyKind::Untyped => shared.push(("body".to_string(), "UntypedBody".to_string())),
            BodyKind::Multipart => shared.push(("body".to_string(), "MultipartBody".to_string())),
        }
        if self.kind == Kind::Channel {
            shared.push(("conn".to_string(), "WebsocketConnection".to_string()));
        }
        shared
    }

    fn ret_text(&self) -> String {
        if self.kind == Kind::Channel {
            "WebsocketChannelResult".to_string()
        } else {
            format!(
                "Result<{}, {}>",
                self.ret.ty(),
                if self.custom_error { "GenError" } else { "HttpError" }
            )
        }
    }

    fn sig(&self, ctx: &str, vis: &str) -> String {
        let mut args = vec![format!("rqctx: RequestContext<{ctx}>")];
        for (n, t) in self.extractor_args() {
            args.push(format!("{n}: {t}"));
        }
        format!("{vis}async fn {}({}) -> {}", self.name, args.join(", "), self.ret_text())
    }

    fn call_logic(&self) -> String {
        let mut args = vec!["rqctx".to_string()];
        for (n, _) in self.extractor_args() {
            args.push(n);
        }
        format!("logic::{}({}).await", self.name, args.join(", "))
    }

    fn types_text(&self) -> String {
        let mut s = String::new();
        let derive = "#[derive(Deserialize, Serialize, JsonSchema, Debug)]\n";
        if !self.path_vars.is_empty() {
            s.push_str(derive);
            s.push_str(&format!("pub struct {} {{ ", self.p_struct()));
            for (n, t) in &self.path_vars {
                s.push_str(&format!("pub {n}: {}, ", t.ty()));
            }
            s.push_str("}\n");
        }
        if let Some(q) = &self.query {
            s.push_str(derive);
            s.push_str(&format!("pub struct {} {{ ", self.q_struct()));
            for (n, t, req) in q {
                if *req {
                    s.push_str(&format!("pub {n}: {}, ", t.ty()));
                } else {
                    s.push_str(&format!("pub {n}: Option<{}>, ", t.ty()));
                }
            }
            s.push_str("}\n");
        }
        if matches!(self.body, BodyKind::TypedJson | BodyKind::TypedForm) {
            s.push_str(derive);
            s.push_str(&format!(
                "pub struct {} {{ pub s: String, pub n: Option<u32> }}\n",
                self.b_struct()
            ));
        }
        s
    }

    fn logic_text(&self) -> String {
        let mut s = format!("    {} {{\n", self.sig("Ctx", "pub "));
        s.push_str("        let mut args = String::new();\n");
        if !self.path_vars.is_empty() {
            s.push_str("        args.push_str(&format!(\"{:?};\", path.into_inner()));\n");
        }
        if self.query.is_some() {
            s.push_str("        args.push_str(&format!(\"{:?};\", query.into_inner()));\n");
        }
        match self.body {
            BodyKind::None => s.push_str("        let body_len = 0usize;\n"),
            BodyKind::TypedJson | BodyKind::TypedForm => s.push_str(
                "        let body_len = { let b = body.into_inner(); args.push_str(&format!(\"n={:?};\", b.n)); b.s.len() };\n",
            ),
            BodyKind::Untyped => s.push_str("        let body_len = body.as_bytes().len();\n"),
            BodyKind::Multipart => s.push_str("        let body_len = 0usize; drop(body);\n"),
        }
        s.push_str(&format!(
            "        let e = genrt::hit(&rqctx, {:?}, args, body_len);\n",
            self.name
        ));
        if self.kind == Kind::Channel {
            s.push_str("        let _ = e; drop(conn);\n        Ok(())\n");
        } else {
            s.push_str(&format!("        {}\n", self.ret.expr()));
        }
        s.push_str("    }\n");
        s
    }

    /// the item as the attribute macro receives it: every other attribute
    /// (doc comments written before and after the macro attribute, in order)
    /// and the function
    pub fn item_text_no_attr(&self) -> String {
        let mut lines: Vec<String> = self.doc.src.clone();
        lines.push(format!("{} {{ todo!() }}", self.sig("Ctx", "pub ")));
        lines.join("\n")
    }

    fn decl_text(&self, for_trait: bool, indent: &str) -> String {
        let mut lines: Vec<String> = vec![];
        let cut = self.doc.src.len().saturating_sub(self.doc_after_attr);
        for it in &self.doc.src[..cut] {
            lines.push(it.clone());
        }
        lines.push(self.attr_text(for_trait));
        for it in &self.doc.src[cut..] {
            lines.push(it.clone());
        }
        if for_trait {
            lines.push(format!("{};", self.sig("Self::Context", "")));
        } else {
            lines.push(format!("{} {{ {} }}", self.sig("Ctx", "pub "), self.call_logic()));
        }
        let mut out = String::new();
        for l in lines {
            for sub in l.split('\n') {
                out.push_str(indent);
                out.push_str(sub);
                out.push('\n');
            }
        }
        out
    }
}

#[derive(Clone, Debug)]
pub struct Program {
    pub label: String,
    pub decls: Vec<Decl>,
    /// `context = <name>` argument of `#[dropshot::api_description]`
    pub trait_ctx: Option<String>,
    /// `module = "<name>"` argument
    pub trait_module: Option<String>,
}

impl Program {
    pub fn manifest(&self) -> Value {
        json!({
            "label": self.label,
            "api_description_args": {"context": self.trait_ctx, "module": self.trait_module},
            "default_request_body_max_bytes": DEFAULT_BODY_MAX,
            "declarations": self.decls.iter().map(|d| d.manifest()).collect::<Vec<_>>(),
        })
    }

    /// (argument tokens of `#[dropshot::api_description]`, the trait item)
    pub fn trait_parts(&self) -> (String, String) {
        let ctx_name = self.trait_ctx.clone().unwrap_or_else(|| "Context".to_string());
        let mut args = vec![];
        if let Some(c) = &self.trait_ctx {
            args.push(format!("context = {c}"));
        }
        if let Some(m) = &self.trait_module {
            args.push(format!("module = {m:?}"));
        }
        let mut s = format!("pub trait GenApi {{\n    type {ctx_name};\n\n");
        for d in &self.decls {
            s.push_str(&d.decl_text(true, "    ").replace(
                "RequestContext<Self::Context>",
                &format!("RequestContext<Self::{ctx_name}>"),
            ));
            s.push('\n');
        }
        s.push_str("}\n");
        (args.join(", "), s)
    }

    pub fn render(&self) -> String {
        let mut s = String::new();
        s.push_str("// generated by vmon_decl c19-programs; do not edit\n");
        s.push_str("#![allow(dead_code, unused_imports, unused_variables, unused_mut, clippy::all)]\n");
        s.push_str(
            "use dropshot::{\n    channel, endpoint, http_response_found, http_response_see_other,\n    http_response_temporary_redirect, ApiDescription, Body, HttpError, HttpResponseAccepted,\n    HttpResponseCreated, HttpResponseDeleted, HttpResponseFound, HttpResponseHeaders,\n    HttpResponseOk, HttpResponseSeeOther, HttpResponseTemporaryRedirect,\n    HttpResponseUpdatedNoContent, MultipartBody, Path, Query, RequestContext, StubContext,\n    TypedBody, UntypedBody, WebsocketChannelResult, WebsocketConnection,\n};\n",
        );
        s.push_str("use genrt::{Ctx, Echo, EchoB, EchoHeaders, GenError};\n");
        s.push_str("use schemars::JsonSchema;\nuse serde::{Deserialize, Serialize};\n\n");
        for (a, b, c) in BOUND_POOL {
            s.push_str(&format!(
                "pub const V_{a}_{b}_{c}: semver::Version = semver::Version::new({a}, {b}, {c});\n"
            ));
        }
        s.push_str("pub mod vers {\n");
        for (a, b, c) in BOUND_POOL {
            s.push_str(&format!(
                "    pub const V_{a}_{b}_{c}: semver::Version = semver::Version::new({a}, {b}, {c});\n"
            ));
        }
        s.push_str("}\n");
        for n in LIMIT_POOL {
            s.push_str(&format!("pub const LIM_{n}: usize = {n};\n"));
        }
        s.push_str("pub mod limits {\n");
        for n in LIMIT_POOL {
            s.push_str(&format!("    pub const LIM_{n}: usize = {n};\n"));
        }
        s.push_str("}\n\n");
        for d in &self.decls {
            s.push_str(&d.types_text());
        }
        s.push_str("\nmod logic {\n    use super::*;\n");
        for d in &self.decls {
            s.push_str(&d.logic_text());
        }
        s.push_str("}\n\nmod fns {\n    use super::*;\n");
        for d in &self.decls {
            s.push_str(&d.decl_text(false, "    "));
            s.push('\n');
        }
        s.push_str("    pub fn api() -> ApiDescription<Ctx> {\n        let mut api = ApiDescription::new();\n");
        for d in &self.decls {
            s.push_str(&format!(
                "        api.register({}).expect(\"register {}\");\n",
                d.name, d.name
            ));
        }
        s.push_str("        api\n    }\n}\n\nmod tr {\n    use super::*;\n");
        let ctx_name = self.trait_ctx.clone().unwrap_or_else(|| "Context".to_string());
        let module = self.trait_module.clone().unwrap_or_else(|| "gen_api_mod".to_string());
        let mut args = vec![];
        if let Some(c) = &self.trait_ctx {
            args.push(format!("context = {c}"));
        }
        if let Some(m) = &self.trait_module {
            args.push(format!("module = {m:?}"));
        }
        if args.is_empty() {
            s.push_str("    #[dropshot::api_description]\n");
        } else {
            s.push_str(&format!("    #[dropshot::api_description {{ {} }}]\n", args.join(", ")));
        }
        s.push_str(&format!("    pub trait GenApi {{\n        type {ctx_name};\n\n"));
        for d in &self.decls {
            s.push_str(&d.decl_text(true, "        ").replace("RequestContext<Self::Context>", &format!("RequestContext<Self::{ctx_name}>")));
            s.push('\n');
        }
        s.push_str(&format!("    }}\n\n    pub enum Impl {{}}\n    impl GenApi for Impl {{\n        type {ctx_name} = Ctx;\n"));
        for d in &self.decls {
            s.push_str(&format!("        {} {{ {} }}\n", d.sig("Ctx", ""), d.call_logic()));
        }
        s.push_str("    }\n");
        s.push_str(&"    pub fn api() -> ApiDescription<Ctx> {\n        MODULE::api_description::<Impl>().expect(\"trait api_description\")\n    }\n".replace("MODULE", &module));
        s.push_str(&"    pub fn stub() -> ApiDescription<StubContext> {\n        MODULE::stub_api_description().expect(\"stub_api_description\")\n    }\n}\n\n".replace("MODULE", &module));
        s.push_str("fn main() {\n    genrt::main(genrt::Apis { fns: fns::api, tr: tr::api, stub: tr::stub });\n}\n");
        s
    }
}

// -------------------------------------------------------------- generation

const METHODS: [&str; 7] = ["GET", "PUT", "POST", "DELETE", "HEAD", "PATCH", "OPTIONS"];
const TAG_POOL: [&str; 8] =
    ["widgets", "admin", "v2-beta", "Mixed Case", "with space", "ünï", "a.b", "x_y"];

fn gen_bound(rng: &mut Rng, lo: usize, hi: usize) -> (usize, VB) {
    let i = lo + rng.usize(hi - lo);
    let via = match rng.below(5) {
        0 => Via::Const,
        1 => Via::PathConst,
        _ => Via::Lit,
    };
    (i, VB { v: BOUND_POOL[i], via })
}

fn gen_versions(rng: &mut Rng) -> VerSpec {
    match rng.below(10) {
        0 | 1 | 2 => VerSpec::Omitted,
        3 => VerSpec::All,
        4 | 5 => VerSpec::From(gen_bound(rng, 0, BOUND_POOL.len()).1),
        6 | 7 => VerSpec::Until(gen_bound(rng, 0, BOUND_POOL.len()).1),
        _ => {
            let (i, a) = gen_bound(rng, 0, BOUND_POOL.len() - 1);
            let (_, b) = gen_bound(rng, i + 1, BOUND_POOL.len());
            VerSpec::FromUntil(a, b)
        }
    }
}

/// disjoint ranges for a group of `n` declarations on one (method, path)
fn gen_version_slices(rng: &mut Rng, n: usize) -> Vec<VerSpec> {
    // n-1 strictly increasing cut points
    let mut idx: Vec<usize> = (0..BOUND_POOL.len()).collect();
    rng.shuffle(&mut idx);
    let mut cuts: Vec<usize> = idx[..n - 1].to_vec();
    cuts.sort();
    let via = |rng: &mut Rng| match rng.below(4) {
        0 => Via::Const,
        1 => Via::PathConst,
        _ => Via::Lit,
    };
    let mut out = vec![];
    for k in 0..n {
        let lo = if k == 0 { None } else { Some(BOUND_POOL[cuts[k - 1]]) };
        let hi = if k == n - 1 { None } else { Some(BOUND_POOL[cuts[k]]) };
        let spec = match (lo, hi) {
            (None, None) => VerSpec::All,
            (None, Some(h)) => VerSpec::Until(VB { v: h, via: via(rng) }),
            (Some(l), None) => VerSpec::From(VB { v: l, via: via(rng) }),
            (Some(l), Some(h)) => {
                VerSpec::FromUntil(VB { v: l, via: via(rng) }, VB { v: h, via: via(rng) })
            }
        };
        out.push(spec);
    }
    out
}

fn gen_limit(rng: &mut Rng) -> LimitSpec {
    let n = *rng.pick(&LIMIT_POOL);
    match rng.below(3) {
        0 => LimitSpec::Lit(n, rng.below(4) as u8),
        1 => LimitSpec::Const(n),
        _ => LimitSpec::PathConst(n),
    }
}

fn opt_bool(rng: &mut Rng, p_true: u64) -> Option<bool> {
    let r = rng.below(100);
    if r < p_true {
        Some(true)
    } else if r < p_true + 15 {
        Some(false)
    } else {
        None
    }
}

struct Root {
    idx: usize,
    lit: String,
    var: String,
    var_ty: PTy,
    sub_var: String,
    sub_ty: PTy,
}

fn scalar_ty(rng: &mut Rng) -> PTy {
    match rng.below(6) {
        0 => PTy::U32,
        1 => PTy::I64,
        2 => PTy::Bool,
        _ => PTy::Str,
    }
}

/// (path, vars)
fn shape_path(root: &Root, shape: u64) -> (String, Vec<(String, PTy)>) {
    let r = &root.lit;
    let k = (root.var.clone(), root.var_ty.clone());
    let s = (root.sub_var.clone(), root.sub_ty.clone());
    match shape {
        0 => (format!("/{r}"), vec![]),
        1 => (format!("/{r}/{{{}}}", k.0), vec![k]),
        2 => (format!("/{r}/{{{}}}/sub", k.0), vec![k]),
        3 => (format!("/{r}/{{{}}}/sub/{{{}}}", k.0, s.0), vec![k, s]),
        4 => (format!("/{r}/{{{}}}/other-x.y", k.0), vec![k]),
        _ => (
            format!("/{r}/{{{}}}/w/{{rest{}:.*}}", k.0, root.idx),
            vec![k, (format!("rest{}", root.idx), PTy::Rest)],
        ),
    }
}

fn default_layout(rng: &mut Rng, d: &mut Decl) {
    d.attr_perm = rng.next();
    d.multiline_attr = rng.bool();
    d.trailing_comma = rng.bool();
    d.qualified_macro = rng.chance(1, 4);
    d.doc_after_attr = if rng.chance(1, 5) && !d.doc.src.is_empty() {
        1 + rng.usize(d.doc.src.len())
    } else {
        0
    };
    d.query_first = rng.bool();
    d.range_space = rng.chance(1, 3);
}

fn blank_decl(name: &str) -> Decl {
    Decl {
        name: name.to_string(),
        kind: Kind::Endpoint,
        method: "GET".into(),
        path: "/".into(),
        path_vars: vec![],
        query: None,
        body: BodyKind::None,
        ret: RetKind::Ok,
        custom_error: false,
        versions: VerSpec::Omitted,
        tags: vec![],
        operation_id: None,
        content_type: None,
        limit: LimitSpec::None,
        deprecated: None,
        unpublished: None,
        doc: DocSpec::none(),
        attr_perm: 1,
        multiline_attr: false,
        trailing_comma: false,
        qualified_macro: false,
        doc_after_attr: 0,
        query_first: false,
        range_space: false,
    }
}

fn gen_query(rng: &mut Rng) -> Vec<(String, PTy, bool)> {
    let n = 1 + rng.usize(3);
    let names = ["qa", "qb", "qc"];
    (0..n).map(|i| (names[i].to_string(), scalar_ty(rng), rng.chance(1, 3))).collect()
}

/// fill in everything except method/path/vars/versions
fn gen_attrs(rng: &mut Rng, d: &mut Decl, used_ops: &mut BTreeSet<String>, exotic_doc: bool) {
    let is_channel = d.kind == Kind::Channel;
    if rng.chance(2, 5) {
        d.query = Some(gen_query(rng));
    }
    if !is_channel {
        let bodyful = matches!(d.method.as_str(), "PUT" | "POST" | "PATCH");
        if bodyful && rng.chance(4, 5) {
            d.body = match rng.below(10) {
                0..=3 => BodyKind::TypedJson,
                4 | 5 => BodyKind::TypedForm,
                6 | 7 | 8 => BodyKind::Untyped,
                _ => BodyKind::Multipart,
            };
        }
        d.content_type = match d.body {
            BodyKind::TypedJson => {
                if rng.chance(1, 3) {
                    Some("application/json".to_string())
                } else {
                    None
                }
            }
            BodyKind::TypedForm => Some("application/x-www-form-urlencoded".to_string()),
            BodyKind::Multipart => {
                if rng.chance(2, 3) {
                    Some("multipart/form-data".to_string())
                } else {
                    None
                }
            }
            BodyKind::Untyped | BodyKind::None => {
                if rng.chance(1, 10) {
                    Some("application/json".to_string())
                } else {
                    None
                }
            }
        };
        let want_limit = match d.body {
            BodyKind::None => rng.chance(1, 8),
            BodyKind::Multipart => rng.chance(1, 3),
            _ => rng.chance(3, 5),
        };
        if want_limit {
            d.limit = gen_limit(rng);
        }
        d.ret = rng.pick(&RET_ALL).clone();
        d.custom_error = rng.chance(1, 4);
    }
    let ntags = match rng.below(6) {
        0 | 1 | 2 => 0,
        3 | 4 => 1,
        _ => 2 + rng.usize(2),
    };
    let mut pool: Vec<&str> = TAG_POOL.to_vec();
    rng.shuffle(&mut pool);
    d.tags = pool[..ntags].iter().map(|s| s.to_string()).collect();
    if rng.chance(1, 3) {
        let base = match rng.below(4) {
            0 => format!("{}Op", d.name),
            1 => format!("thing.{}-get", d.name),
            2 => format!("{}_EXPLICIT", d.name.to_uppercase()),
            _ => format!("op {} spaced", d.name),
        };
        used_ops.insert(base.clone());
        d.operation_id = Some(base);
    }
    d.deprecated = opt_bool(rng, 25);
    if !d.has_wildcard() {
        d.unpublished = opt_bool(rng, 20);
    }
    d.doc = if exotic_doc { docgen::gen_doc_star_exotic(rng) } else { docgen::gen_doc(rng) };
    default_layout(rng, d);
}

pub fn gen_program(rng: &mut Rng, label: &str, k: usize) -> Program {
    let nroots = 5 + rng.usize(3);
    let roots: Vec<Root> = (0..nroots)
        .map(|i| Root {
            idx: i,
            lit: match rng.below(4) {
                0 => format!("r{i}"),
                1 => format!("res-{i}"),
                2 => format!("r{i}.v1"),
                _ => format!("R_{i}"),
            },
            var: format!("k{i}"),
            var_ty: scalar_ty(rng),
            sub_var: format!("s{i}"),
            sub_ty: scalar_ty(rng),
        })
        .collect();
    let nchan = 1 + rng.usize(3);
    let mut decls: Vec<Decl> = vec![];
    let mut used: BTreeSet<(String, String)> = BTreeSet::new();
    let mut used_ops = BTreeSet::new();
    let mut seq = 0usize;
    let mut chan_seq = 0usize;
    // exactly one declaration per program carries the exotic star-line doc
    // shape (keyed separately, see docgen)
    let exotic_at = rng.usize(k);
    let mut guard = 0;
    while decls.len() < k && guard < 10_000 {
        guard += 1;
        let want_channel = chan_seq < nchan && decls.len() + (nchan - chan_seq) >= k;
        let want_channel = want_channel || (chan_seq < nchan && rng.chance(1, 12));
        let root = &roots[rng.usize(roots.len())];
        let shape = if want_channel { rng.below(5) } else { rng.below(6) };
        let (path, vars) = if rng.chance(1, 40) && !used.iter().any(|(_, p)| p == "/") {
            ("/".to_string(), vec![])
        } else {
            shape_path(root, shape)
        };
        let method =
            if want_channel { "GET".to_string() } else { rng.pick(&METHODS).to_string() };
        let key = (method.clone(), path.clone());
        if used.contains(&key) {
            continue;
        }
        used.insert(key);
        let group = if !want_channel && rng.chance(1, 6) && decls.len() + 3 <= k {
            2 + rng.usize(2)
        } else {
            1
        };
        let slices =
            if group > 1 { gen_version_slices(rng, group) } else { vec![gen_versions(rng)] };
        // a hole: drop one slice of a 3-group sometimes
        let shared_op = if group > 1 && rng.chance(1, 2) {
            Some(format!("shared_{seq}"))
        } else {
            None
        };
        let drop_one = if group == 3 && rng.chance(1, 3) { Some(rng.usize(3)) } else { None };
        for (gi, vs) in slices.into_iter().enumerate() {
            if Some(gi) == drop_one {
                continue;
            }
            let name = if want_channel {
                chan_seq += 1;
                format!("c{:02}", chan_seq - 1)
            } else {
                seq += 1;
                format!("d{:02}", seq - 1)
            };
            let mut d = blank_decl(&name);
            d.kind = if want_channel { Kind::Channel } else { Kind::Endpoint };
            d.method = method.clone();
            d.path = path.clone();
            d.path_vars = vars.clone();
            d.versions = vs;
            if d.has_wildcard() {
                d.unpublished = Some(true);
            }
            let exotic = decls.len() == exotic_at;
            gen_attrs(rng, &mut d, &mut used_ops, exotic);
            if let Some(op) = &shared_op {
                d.operation_id = Some(op.clone());
            }
            decls.push(d);
        }
    }
    let trait_ctx = if rng.chance(1, 3) { Some(["Cx", "ServerState", "MyContext"][rng.usize(3)].to_string()) } else { None };
    let trait_module = if rng.chance(1, 3) { Some(["my_api", "api_support", "generated"][rng.usize(3)].to_string()) } else { None };
    Program { label: label.to_string(), decls, trait_ctx, trait_module }
}

/// The fixed program: every attribute, every version syntax, every extractor
/// combination, every return type and every doc spelling at least once.
pub fn fixed_program() -> Program {
    let mut rng = Rng::derive(0xC19, "c19-fixed", 0, 0);
    let mut decls: Vec<Decl> = vec![];
    let lit = |v: (u64, u64, u64)| VB { v, via: Via::Lit };
    let doc_lines = |shape: &str, lines: &[&str]| DocSpec {
        shape: shape.to_string(),
        src: lines
            .iter()
            .map(|l| if l.is_empty() { "///".to_string() } else { format!("/// {l}") })
            .collect(),
        text: lines.iter().map(|l| l.to_string()).collect(),
        exotic: None,
    };
    let mut push = |mut d: Decl, rng: &mut Rng| {
        let doc = d.doc.clone();
        default_layout(rng, &mut d);
        d.doc = doc;
        if d.doc_after_attr > d.doc.src.len() {
            d.doc_after_attr = 0;
        }
        decls.push(d);
    };

    // d00: everything defaulted
    let d = blank_decl("d00");
    push(Decl { path: "/plain".into(), ..d }, &mut rng);

    // d01: javadoc-ish summary + description, tags, from-version literal
    let mut d = blank_decl("d01");
    d.path = "/widgets".into();
    d.tags = vec!["widgets".into(), "admin".into()];
    d.versions = VerSpec::From(lit((1, 0, 0)));
    d.doc = doc_lines(
        "fixed:summary+lines|line",
        &["List the widgets", "Maybe there's more to say...", "... on a second line."],
    );
    push(d, &mut rng);

    // d02: PUT typed json with body limit literal, deprecated, explicit op id
    let mut d = blank_decl("d02");
    d.method = "PUT".into();
    d.path = "/widgets/{wid}".into();
    d.path_vars = vec![("wid".into(), PTy::Str)];
    d.body = BodyKind::TypedJson;
    d.content_type = Some("application/json".into());
    d.limit = LimitSpec::Lit(2048, 0);
    d.deprecated = Some(true);
    d.operation_id = Some("widgetReplace".into());
    d.ret = RetKind::UpdatedNoContent;
    d.doc = doc_lines(
        "fixed:paragraphs|line",
        &["Summary", "Text", "More", "", "Even", "More", "", "", "", "And another", "paragraph"],
    );
    push(d, &mut rng);

    // d03: POST form body, constant limit below the server default, until-version const
    let mut d = blank_decl("d03");
    d.method = "POST".into();
    d.path = "/widgets".into();
    d.body = BodyKind::TypedForm;
    d.content_type = Some("application/x-www-form-urlencoded".into());
    d.limit = LimitSpec::Const(100);
    d.versions = VerSpec::Until(VB { v: (2, 0, 0), via: Via::Const });
    d.ret = RetKind::Created;
    d.custom_error = true;
    d.doc = DocSpec {
        shape: "fixed:block-decorated".into(),
        src: vec!["/**\n * Create a widget\n *\n * from a form,\n * with a small limit\n */".into()],
        text: vec![
            "Create a widget".into(),
            "".into(),
            "from a form,".into(),
            "with a small limit".into(),
        ],
        exotic: None,
    };
    push(d, &mut rng);

    // d04: untyped body, path-constant limit above the default, from-until path consts
    let mut d = blank_decl("d04");
    d.method = "PATCH".into();
    d.path = "/widgets/{wid}".into();
    d.path_vars = vec![("wid".into(), PTy::Str)];
    d.body = BodyKind::Untyped;
    d.limit = LimitSpec::PathConst(5000);
    d.versions = VerSpec::FromUntil(
        VB { v: (1, 0, 0), via: Via::PathConst },
        VB { v: (2, 0, 0), via: Via::PathConst },
    );
    d.ret = RetKind::Accepted;
    d.query = Some(vec![("qa".into(), PTy::Str, true), ("qb".into(), PTy::U32, false)]);
    d.doc = DocSpec {
        shape: "fixed:attr-multiline".into(),
        src: vec!["#[doc = \" Patch it\\n\\n right-\\n fully\"]".into()],
        text: vec!["Patch it".into(), "".into(), "right-".into(), "fully".into()],
        exotic: None,
    };
    push(d, &mut rng);

    // d05: unpublished
    let mut d = blank_decl("d05");
    d.method = "DELETE".into();
    d.path = "/widgets/{wid}".into();
    d.path_vars = vec![("wid".into(), PTy::Str)];
    d.unpublished = Some(true);
    d.ret = RetKind::Deleted;
    d.doc = doc_lines("fixed:leading-blank|line", &["", "", "Hidden delete"]);
    push(d, &mut rng);

    // d06: wildcard (must be unpublished)
    let mut d = blank_decl("d06");
    d.path = "/static/{rest:.*}".into();
    d.path_vars = vec![("rest".into(), PTy::Rest)];
    d.unpublished = Some(true);
    d.ret = RetKind::Freeform;
    push(d, &mut rng);

    // d07..d09: one path sliced into three version ranges, all four syntaxes
    for (i, vs) in [
        VerSpec::Until(lit((1, 0, 0))),
        VerSpec::FromUntil(lit((1, 1, 0)), VB { v: (1, 2, 3), via: Via::Const }),
        VerSpec::From(VB { v: (2, 0, 0), via: Via::PathConst }),
    ]
    .into_iter()
    .enumerate()
    {
        let mut d = blank_decl(&format!("d{:02}", 7 + i));
        d.path = "/demo".into();
        d.versions = vs;
        d.operation_id = Some("demo".into());
        d.ret = [RetKind::Ok, RetKind::OkB, RetKind::HeadersOk][i].clone();
        d.doc = doc_lines("fixed:summary-only|line", &[&format!("Demo, era {i}")]);
        push(d, &mut rng);
    }
    // d10: `versions = ..`, explicit false flags
    let mut d = blank_decl("d10");
    d.method = "PUT".into();
    d.path = "/demo".into();
    d.versions = VerSpec::All;
    d.deprecated = Some(false);
    d.unpublished = Some(false);
    d.body = BodyKind::TypedJson;
    d.ret = RetKind::Ok;
    push(d, &mut rng);

    // d11: multipart
    let mut d = blank_decl("d11");
    d.method = "POST".into();
    d.path = "/upload".into();
    d.body = BodyKind::Multipart;
    d.content_type = Some("multipart/form-data".into());
    d.ret = RetKind::SeeOther;
    d.doc = DocSpec {
        shape: "fixed:block-oneline".into(),
        src: vec!["/** Upload a file */".into()],
        text: vec!["Upload a file".into()],
        exotic: None,
    };
    push(d, &mut rng);

    // d12..d14: redirects, HEAD, OPTIONS
    let mut d = blank_decl("d12");
    d.method = "HEAD".into();
    d.path = "/widgets".into();
    d.ret = RetKind::Found;
    push(d, &mut rng);
    let mut d = blank_decl("d13");
    d.method = "OPTIONS".into();
    d.path = "/widgets".into();
    d.ret = RetKind::TempRedirect;
    d.tags = vec!["with space".into()];
    push(d, &mut rng);
    let mut d = blank_decl("d14");
    d.path = "/widgets/{wid}/sub/{n}".into();
    d.path_vars = vec![("wid".into(), PTy::Str), ("n".into(), PTy::U32)];
    d.query = Some(vec![("qa".into(), PTy::Bool, false)]);
    d.query_first = true;
    d.custom_error = true;
    d.doc = DocSpec {
        shape: "fixed:mixed".into(),
        src: vec![
            "/// Mixed spelling".into(),
            "#[doc = \"\"]".into(),
            "/** second paragraph\n         * continues */".into(),
            "#[doc(hidden)]".into(),
            "/// - bullet one".into(),
        ],
        text: vec![
            "Mixed spelling".into(),
            "".into(),
            "second paragraph".into(),
            "continues".into(),
            "- bullet one".into(),
        ],
        exotic: None,
    };
    push(d, &mut rng);

    // channels
    let mut c = blank_decl("c00");
    c.kind = Kind::Channel;
    c.path = "/ws".into();
    c.doc = doc_lines("fixed:summary+lines|line", &["A channel", "with a description"]);
    push(c, &mut rng);
    let mut c = blank_decl("c01");
    c.kind = Kind::Channel;
    c.path = "/ws/{room}".into();
    c.path_vars = vec![("room".into(), PTy::Str)];
    c.query = Some(vec![("qa".into(), PTy::Str, false)]);
    c.versions = VerSpec::From(lit((1, 1, 0)));
    c.tags = vec!["widgets".into()];
    c.deprecated = Some(true);
    c.operation_id = Some("roomChannel".into());
    push(c, &mut rng);
    let mut c = blank_decl("c02");
    c.kind = Kind::Channel;
    c.path = "/ws-hidden".into();
    c.unpublished = Some(true);
    c.versions = VerSpec::Until(lit((2, 0, 0)));
    push(c, &mut rng);

    // exotic star-line doc
    let mut d = blank_decl("d15");
    d.path = "/bullets".into();
    d.doc = DocSpec {
        shape: "fixed:star-lines|block-undecorated".into(),
        src: vec!["/**\nOptions\n\n* first\n* second\n*/".into()],
        text: vec!["Options".into(), "".into(), "* first".into(), "* second".into()],
        exotic: Some("line-leading-star-in-undecorated-multiline-doc"),
    };
    push(d, &mut rng);

    // exotic macro-valued doc attribute
    let mut d = blank_decl("d16");
    d.path = "/from-macro".into();
    d.doc = DocSpec {
        shape: "fixed:macro-valued-doc-attr".into(),
        src: vec!["#[doc = concat!(\"Summary \", \"from concat\")]".into(), "///".into(), "/// and a plain line".into()],
        text: vec!["Summary from concat".into(), "".into(), "and a plain line".into()],
        exotic: Some("doc-attribute-with-macro-value"),
    };
    push(d, &mut rng);

    Program { label: "fixed".into(), decls, trait_ctx: None, trait_module: None }
}

/// model of dispatch: which declaration serves (method, path) at version v
pub fn occupant<'a>(decls: &'a [Decl], method: &str, path: &str, v: &MVer) -> Vec<&'a Decl> {
    decls
        .iter()
        .filter(|d| d.method == method && d.path == path && d.versions.mrange().contains(v))
        .collect()
}

pub fn by_name(decls: &[Decl]) -> BTreeMap<String, &Decl> {
    decls.iter().map(|d| (d.name.clone(), d)).collect()
}
