//! engine binary skeleton: see ../CONTRIBUTING.md
use vmon::report::Report;

mod c16;
mod c16h2;
mod c17h2;
mod c17drop;
mod c17;
mod common;
use common::Out;

pub struct Args {
    pub engine: String,
    pub seed: u64,
    pub tier: String,
    pub out: String,
    pub threads: usize,
}

fn usage() -> ! {
    eprintln!("usage: <bin> <engine> --seed N --tier quick|thorough --out FILE [--threads N]");
    std::process::exit(2)
}

fn parse_args() -> Args {
    let mut a = std::env::args().skip(1);
    let engine = a.next().unwrap_or_else(|| usage());
    let mut args = Args { engine, seed: 1, tier: "quick".into(), out: String::new(), threads: 16 };
    while let Some(k) = a.next() {
        match k.as_str() {
            "--seed" => args.seed = a.next().and_then(|s| s.parse().ok()).unwrap_or_else(|| usage()),
            "--tier" => args.tier = a.next().unwrap_or_else(|| usage()),
            "--out" => args.out = a.next().unwrap_or_else(|| usage()),
            "--threads" => args.threads = a.next().and_then(|s| s.parse().ok()).unwrap_or_else(|| usage()),
            _ => usage(),
        }
    }
    args
}

/// run `f(shard)` on `n` threads and merge the outputs
fn sharded<F>(n: usize, f: F) -> Out
where
    F: Fn(u64) -> Out + Send + Sync + 'static,
{
    let f = std::sync::Arc::new(f);
    let hs: Vec<_> = (0..n)
        .map(|i| {
            let f = f.clone();
            std::thread::Builder::new()
                .name(format!("shard{i}"))
                .stack_size(16 << 20)
                .spawn(move || f(i as u64))
                .unwrap()
        })
        .collect();
    let mut it = hs.into_iter();
    // a shard thread that died is a broken check (inconclusive), never a crash
    let mut out: Option<Out> = None;
    let mut dead = 0;
    for h in it.by_ref() {
        match h.join() {
            Ok(o) => match out.as_mut() {
                Some(acc) => acc.merge(o),
                None => out = Some(o),
            },
            Err(_) => dead += 1,
        }
    }
    let mut out = out.unwrap_or_else(|| Out::new(Report::new("", "", "")));
    for _ in 0..dead {
        out.rep.inconclusive("shard-thread-panicked");
    }
    out
}

fn main() {
    vmon::panics::install();
    let args = parse_args();
    let t0 = std::time::Instant::now();
    let quick = args.tier != "thorough";
    let seed = args.seed;
    let n = args.threads.max(1);
    let ns = n as u64;
    // debugging aid only (never set by bin/check): override the scenario count
    let cases_override: Option<u64> =
        std::env::var("VMON_HIST_CASES").ok().and_then(|s| s.parse().ok());
    // second event source: dropshot's own per-request log records
    let cap = vmon::srv::enable_log_capture();
    let mut rep: Report = match args.engine.as_str() {
        "c16-disconnect" => {
            let total: u64 = cases_override.unwrap_or(if quick { 480 } else { 30_000 });
            let mut out = sharded(n, move |s| c16::run_shard(seed, s, ns, total, quick));
            c16::finish(&mut out);
            out.rep
        }
        "c16-h2" => {
            let total: u64 = cases_override.unwrap_or(if quick { 1600 } else { 60_000 });
            sharded(n, move |s| c16h2::run_shard(seed, s, ns, total)).rep
        }
        "c17-h2" => {
            let total: u64 = cases_override.unwrap_or(if quick { 800 } else { 40_000 });
            sharded(n, move |s| c17h2::run_shard(seed, s, ns, total)).rep
        }
        "c17-drop" => {
            let total: u64 = cases_override.unwrap_or(if quick { 800 } else { 40_000 });
            sharded(n, move |s| c17drop::run_shard(seed, s, ns, total)).rep
        }
        "c17-shutdown" => {
            let total: u64 = cases_override.unwrap_or(if quick { 640 } else { 10_000 });
            let mut out = sharded(n, move |s| c17::run_shard(seed, s, ns, total));
            c17::finish(&mut out, seed);
            out.rep
        }
        _ => usage(),
    };
    // the `panicking` handler's panics are injected on purpose; anything else is
    // an unexpected panic somewhere in the process
    let mut injected = 0u64;
    // "a started handler ends exactly one way": the server's own records must agree —
    // no request id is recorded both as completed and as cancelled, and none twice
    {
        let completed = cap.completed.lock().unwrap();
        let cancelled = cap.cancelled.lock().unwrap();
        rep.count("server_log_records_seen", cap.records.load(std::sync::atomic::Ordering::Relaxed));
        rep.count("server_log_request_completed", completed.len() as u64);
        rep.count("server_log_request_cancelled", cancelled.len() as u64);
        let mut n = 0;
        for (id, c) in completed.iter() {
            if cancelled.contains_key(id) {
                n += 1;
                if n <= 3 {
                    rep.violate(
                        format!("{}:server-records-request-both-completed-and-cancelled", rep.property),
                        serde_json::json!({"request_id": id, "completed_records": c, "cancelled_records": cancelled[id]}),
                    );
                }
            } else if *c > 1 {
                rep.violate(
                    format!("{}:server-records-request-completed-twice", rep.property),
                    serde_json::json!({"request_id": id, "completed_records": c}),
                );
            }
        }
    }
    for p in vmon::panics::take_unexpected() {
        if p.message.starts_with(common::INJECTED) {
            injected += 1;
            continue;
        }
        rep.violate(
            format!("{}:unexpected-panic", rep.property),
            serde_json::json!({"location": p.location, "message": p.message, "thread": p.thread}),
        );
    }
    rep.count("injected_panics_seen_by_hook", injected);
    let mut j = rep.to_json();
    j["wall_s"] = serde_json::json!(t0.elapsed().as_secs_f64());
    j["seed"] = serde_json::json!(args.seed);
    j["tier"] = serde_json::json!(args.tier);
    let text = serde_json::to_string_pretty(&j).unwrap();
    if args.out.is_empty() {
        println!("{text}");
    } else {
        std::fs::write(&args.out, text).expect("write report");
    }
}
