//! C17 — shutdown is graceful and complete.  History monitor: close() is called
//! at a random moment relative to started handlers (clients staying / gone),
//! idle keep-alive connections, half-sent requests, late arrivals and extra
//! wait_for_shutdown() waiters; oracle over the recorded history.

use crate::common::*;
use dropshot::HandlerTaskMode;
use serde_json::{json, Value};
use std::collections::BTreeMap;
use std::net::SocketAddr;
use std::sync::atomic::{AtomicUsize, Ordering};
use std::sync::Mutex;
use std::time::{Duration, Instant};
use vmon::client::Conn;
use vmon::evlog::{next_uid, EvLog};
use vmon::report::Report;
use vmon::rng::Rng;
use vmon::srv::{Ctx, SrvCfg, C};

pub const RULE: &str = "cases are (a) one generated shutdown scenario and (b) every request \
(uid) in it.  Scenario = task mode x workers 1/2/4/16 x CPU hogs x close() timing (after all \
populations settled / racing with them) x populations present (handlers either keep their RequestContext or drop it before waiting): \
S started gated handlers whose client stays, I idle connections that never sent a byte, U idle keep-alive connections after one \
exchange, H half-sent requests whose client finishes or leaves later, L started handlers whose \
client left before close, A connections arriving after the close call, P a panicking handler x \
extra wait_for_shutdown() waiters awaited before the call / after the call / after the return, \
plain .await or through futures::select! next to a ticking branch; E clients whose requests end \
with an error response. \
class (a) = sc|mode|timing|populations|waiter kinds; class (b) = mode|population|order by seq of \
that uid's events and the close events (E enter, s steps, G gate opened, d/D client disconnect, \
F done, X cancelled-drop, x drop after completion, P panic-drop, R response read, C close called, \
Z close returned)|client outcome";

const WD_OBSERVE: Duration = Duration::from_secs(20);
const WD_READ: Duration = Duration::from_secs(40);
const WD_CLOSE: Duration = Duration::from_secs(30);

/// port -> instance of the last harness server of this process that bound it
/// (registered under the lock that also covers the bind, so the port probe can
/// tell "another of my servers got the port since" from "the old listener is
/// still there")
static REG: Mutex<BTreeMap<u16, u64>> = Mutex::new(BTreeMap::new());
/// hang candidates seen so far in this process (stops the run early)
pub static HANGS: AtomicUsize = AtomicUsize::new(0);

#[derive(Clone, Copy, Debug, PartialEq)]
enum OpenWhen {
    AfterClose,
    Early,
    Pre,
}

#[derive(Clone, Debug)]
struct Stay {
    uid: u64,
    path: &'static str,
    size: usize,
    k: u64,
    step_us: u64,
    warm: Option<u64>,
    open: OpenWhen,
    early_us: u64,
    delay_us: u64,
    slow_reader: bool,
    /// handler variant that drops its RequestContext before it waits
    drop_rqctx: bool,
}

#[derive(Clone, Debug)]
struct Half {
    uid: u64,
    cut_permille: u64,
    finish: bool,
    style: Style,
    wait_close: bool,
    delay_ms: u64,
}

#[derive(Clone, Debug)]
struct Left {
    uid: u64,
    style: Style,
    stepping: bool,
    /// handler variant that drops its RequestContext before it waits (then
    /// nothing but dropshot's own bookkeeping makes shutdown wait for it)
    drop_rqctx: bool,
}

#[derive(Clone, Debug)]
struct Late {
    uid: u64,
    delay_us: u64,
}

struct Sc {
    mode: HandlerTaskMode,
    workers: usize,
    hogs: usize,
    /// None: close after every population has settled; Some(us): close races
    race_us: Option<u64>,
    stay: Vec<Stay>,
    idle_fresh: usize,
    idle_used: usize,
    half: Vec<Half>,
    left: Vec<Left>,
    late: Vec<Late>,
    panics: Vec<u64>,
    w_early: usize,
    w_late: usize,
    w_post: usize,
    /// waiters that wait through `futures::select!` (FusedFuture) next to a
    /// ticking branch, started before close(); 0 or >= 2
    w_select: usize,
    /// clients (before close) whose requests end with an error response
    errs: usize,
}

impl Sc {
    fn pops(&self) -> String {
        let mut s = String::new();
        for (c, n) in [
            ('S', self.stay.len()),
            ('I', self.idle_fresh),
            ('U', self.idle_used),
            ('H', self.half.len()),
            ('L', self.left.len()),
            ('A', self.late.len()),
            ('P', self.panics.len()),
            ('E', self.errs),
        ] {
            if n > 0 {
                s.push(c);
            }
        }
        s
    }
    fn json(&self) -> Value {
        json!({"mode": mode_tag(self.mode), "workers": self.workers, "hogs": self.hogs,
               "close_timing": match self.race_us { None => "settled".to_string(), Some(u) => format!("race+{u}us") },
               "stay": self.stay.len(), "idle_fresh": self.idle_fresh, "idle_used": self.idle_used,
               "half": self.half.iter().map(|h| json!({"finish": h.finish, "wait_close": h.wait_close, "style": h.style.tag(), "delay_ms": h.delay_ms})).collect::<Vec<_>>(),
               "left": self.left.len(), "late": self.late.len(), "panics": self.panics.len(),
               "waiters": [self.w_early, self.w_late, self.w_post],
               "select_waiters": self.w_select, "error_ending_clients": self.errs})
    }
}

fn gen_scenario(rng: &mut Rng) -> Sc {
    let mode = if rng.bool() {
        HandlerTaskMode::Detached
    } else {
        HandlerTaskMode::CancelOnDisconnect
    };
    let workers = *rng.pick(&[1usize, 2, 4, 16]);
    let hogs = if rng.chance(1, 4) { 1 + rng.usize(workers.min(4)) } else { 0 };
    let race_us = if rng.chance(2, 5) { Some(rng.below(4000)) } else { None };
    let n_stay = *rng.pick(&[0usize, 1, 1, 2, 2, 3, 4, 6, 8, 12, 24, 48]);
    let mut bigs = 2;
    let stay = (0..n_stay)
        .map(|_| {
            let r = rng.below(10);
            let (path, size) = if r < 2 {
                ("/stepping", *rng.pick(&[0usize, 64, 5000]))
            } else if r < 4 && bigs > 0 {
                bigs -= 1;
                ("/big", *rng.pick(&[100_000usize, 1 << 20, 3 << 20]))
            } else {
                ("/gated", *rng.pick(&[0usize, 1, 64, 5000, 70_000]))
            };
            Stay {
                uid: next_uid(),
                path,
                size,
                k: rng.below(5),
                step_us: 200 + rng.below(2000),
                warm: if rng.chance(1, 4) { Some(next_uid()) } else { None },
                open: *rng.pick(&[
                    OpenWhen::AfterClose,
                    OpenWhen::AfterClose,
                    OpenWhen::AfterClose,
                    OpenWhen::Early,
                    OpenWhen::Pre,
                ]),
                early_us: rng.below(5000),
                delay_us: rng.below(3000),
                slow_reader: path == "/big" && rng.bool(),
                drop_rqctx: rng.bool(),
            }
        })
        .collect();
    let half = (0..*rng.pick(&[0usize, 0, 1, 1, 2, 4]))
        .map(|_| Half {
            uid: next_uid(),
            cut_permille: 1 + rng.below(998),
            finish: rng.bool(),
            style: if rng.bool() { Style::Close } else { Style::Rst },
            wait_close: rng.chance(4, 5),
            delay_ms: rng.below(120),
        })
        .collect();
    let left = (0..*rng.pick(&[0usize, 0, 1, 2, 3, 6]))
        .map(|_| Left {
            uid: next_uid(),
            style: if rng.bool() { Style::Close } else { Style::Rst },
            stepping: rng.chance(1, 4),
            drop_rqctx: rng.chance(2, 3),
        })
        .collect();
    let late = (0..*rng.pick(&[0usize, 0, 1, 2, 4]))
        .map(|_| Late { uid: next_uid(), delay_us: rng.below(3000) })
        .collect();
    let panics = if rng.chance(1, 8) { vec![next_uid()] } else { vec![] };
    Sc {
        mode,
        workers,
        hogs,
        race_us,
        stay,
        idle_fresh: *rng.pick(&[0usize, 0, 1, 2, 4]),
        idle_used: *rng.pick(&[0usize, 0, 1, 2, 4]),
        half,
        left,
        late,
        panics,
        w_early: rng.usize(3),
        w_late: rng.usize(3),
        w_post: rng.usize(3),
        w_select: *rng.pick(&[0usize, 0, 2, 3]),
        errs: *rng.pick(&[0usize, 1, 1, 2]),
    }
}

struct Env<'a> {
    addr: SocketAddr,
    ctx: &'a C,
    log: &'a EvLog,
    ready: &'a AtomicUsize,
    incon: &'a Mutex<Vec<String>>,
    counts: &'a Mutex<BTreeMap<String, u64>>,
}

impl Env<'_> {
    fn open_gate(&self, uid: u64) {
        if !self.ctx.gates.is_open(uid) {
            self.log.push("G_OPEN", uid, 0, "");
            self.ctx.gates.open(uid);
        }
    }
    fn incon(&self, s: String) {
        self.incon.lock().unwrap().push(s);
    }
    fn count(&self, s: String) {
        *self.counts.lock().unwrap().entry(s).or_insert(0) += 1;
    }
    fn connect(&self, who: &str) -> Option<Conn> {
        match Conn::connect(self.addr) {
            Ok(mut c) => {
                c.timeout = WD_READ;
                Some(c)
            }
            Err(e) => {
                if matches!(
                    e.kind(),
                    std::io::ErrorKind::ConnectionRefused
                        | std::io::ErrorKind::ConnectionReset
                        | std::io::ErrorKind::NotConnected
                ) && self.close_called()
                {
                    // close() raced ahead of this client: nothing to judge
                    self.count(format!("{who}_connect_{:?}_after_close_call", e.kind()));
                } else {
                    self.incon(if is_resource_err(&e) {
                        "c17-connect-resource-error".into()
                    } else {
                        format!("c17-{who}-connect-failed:{:?}", e.kind())
                    });
                }
                None
            }
        }
    }
    fn close_called(&self) -> bool {
        self.log.count_kind("S_CLOSE_CALL") > 0
    }
}

struct Ready<'a>(&'a AtomicUsize, bool);
impl Ready<'_> {
    fn set(&mut self) {
        if !self.1 {
            self.1 = true;
            self.0.fetch_add(1, Ordering::SeqCst);
        }
    }
}
impl Drop for Ready<'_> {
    fn drop(&mut self) {
        self.set();
    }
}

fn stay_client(p: &Stay, env: &Env) -> Option<Outcome> {
    let mut ready = Ready(env.ready, false);
    std::thread::sleep(Duration::from_micros(p.delay_us));
    let mut conn = env.connect("stay")?;
    if p.slow_reader {
        small_rcvbuf(&conn, 128 << 10);
    }
    if let Some(w) = p.warm {
        env.open_gate(w);
        if conn.send(&mk_req(env.ctx.instance, "/gated", w, 100, 0, 0).encode()).is_err() {
            return None;
        }
        let o = read_and_verify(&mut conn, w, 100, WD_READ);
        env.log.push("C_RESP", w, 0, &o.tag());
        env.count(format!("warmup_exchange_{}", o.tag()));
        if o != Outcome::Ok200 {
            return None;
        }
    }
    if p.open == OpenWhen::Pre {
        env.open_gate(p.uid);
    }
    let uid = p.uid;
    let bytes =
        drop_rqctx(mk_req(env.ctx.instance, p.path, uid, p.size, p.k, p.step_us), p.drop_rqctx)
            .encode();
    env.log.push("C_SEND", uid, bytes.len() as i64, "");
    if conn.send(&bytes).is_err() {
        return None;
    }
    env.log.push("C_SENT_ALL", uid, 0, "");
    let _ = env.log.wait_for(
        |e| (e.kind == "H_ENTER" && e.uid == uid) || e.kind == "S_CLOSE_CALL",
        WD_OBSERVE,
    );
    ready.set();
    if p.open == OpenWhen::Early {
        std::thread::sleep(Duration::from_micros(p.early_us));
        env.open_gate(uid);
    }
    let o = read_and_verify(&mut conn, uid, p.size, WD_READ);
    env.log.push("C_RESP", uid, 0, &o.tag());
    drop(conn);
    env.log.push("C_CLOSED", uid, 0, "");
    Some(o)
}

fn idle_client(used: bool, env: &Env) {
    let mut ready = Ready(env.ready, false);
    let Some(mut conn) = env.connect("idle") else { return };
    let tag = if used { "idle_used" } else { "idle_fresh" };
    if used {
        let w = next_uid();
        env.open_gate(w);
        if conn.send(&mk_req(env.ctx.instance, "/gated", w, 10, 0, 0).encode()).is_err() {
            return;
        }
        let o = read_and_verify(&mut conn, w, 10, WD_READ);
        if o != Outcome::Ok200 {
            env.count(format!("{tag}_exchange_{}", o.tag()));
            return;
        }
    }
    ready.set();
    let t0 = Instant::now();
    let mut since_close: Option<Instant> = None;
    loop {
        let (_, why) = conn.read_to_eof(Duration::from_millis(50));
        if why != "timeout" {
            env.count(format!("{tag}_ended_by_server_{why}"));
            break;
        }
        if since_close.is_none() && env.close_called() {
            since_close = Some(Instant::now());
        }
        // the client leaves by itself a bounded time after the close call
        if since_close.map(|t| t.elapsed() > Duration::from_millis(1500)).unwrap_or(false)
            || t0.elapsed() > Duration::from_secs(60)
        {
            env.count(format!("{tag}_left_by_itself"));
            break;
        }
    }
}

fn half_client(p: &Half, env: &Env) -> Option<Outcome> {
    let mut ready = Ready(env.ready, false);
    let mut conn = env.connect("half")?;
    let bytes = drop_rqctx(mk_req(env.ctx.instance, "/gated", p.uid, 500, 0, 0), p.uid % 2 == 0).encode();
    let cut = 1 + (p.cut_permille as usize * (bytes.len() - 2)) / 1000;
    env.log.push("C_SEND", p.uid, cut as i64, "partial");
    if conn.send(&bytes[..cut]).is_err() {
        return None;
    }
    ready.set();
    if p.wait_close {
        let _ = env.log.wait_for(|e| e.kind == "S_CLOSE_CALL", Duration::from_secs(60));
    }
    std::thread::sleep(Duration::from_millis(p.delay_ms));
    if p.finish {
        env.open_gate(p.uid);
        env.log.push("C_SEND", p.uid, (bytes.len() - cut) as i64, "rest");
        let o = if conn.send(&bytes[cut..]).is_ok() {
            read_and_verify(&mut conn, p.uid, 500, WD_READ)
        } else {
            Outcome::Io("send".into())
        };
        env.log.push("C_RESP", p.uid, 0, &o.tag());
        env.count(format!(
            "half_finished_{}_{}",
            if p.wait_close { "after_close_call" } else { "unsynchronised" },
            o.tag()
        ));
        Some(o)
    } else {
        env.log.push("C_DISC_CALL", p.uid, 0, p.style.tag());
        disconnect(conn, p.style);
        env.log.push("C_DISC_RET", p.uid, 0, "");
        None
    }
}

fn left_client(p: &Left, env: &Env) {
    let mut ready = Ready(env.ready, false);
    let Some(mut conn) = env.connect("left") else { return };
    let uid = p.uid;
    let path = if p.stepping { "/stepping" } else { "/gated" };
    let bytes = drop_rqctx(mk_req(env.ctx.instance, path, uid, 64, 2, 700), p.drop_rqctx).encode();
    env.log.push("C_SEND", uid, bytes.len() as i64, "");
    if conn.send(&bytes).is_err() {
        return;
    }
    env.log.push("C_SENT_ALL", uid, 0, "");
    let _ = env.log.wait_for(
        |e| (e.kind == "H_ENTER" && e.uid == uid) || e.kind == "S_CLOSE_CALL",
        WD_OBSERVE,
    );
    env.log.push("C_DISC_CALL", uid, 0, p.style.tag());
    disconnect(conn, p.style);
    env.log.push("C_DISC_RET", uid, 0, "");
    ready.set();
}

fn late_client(p: &Late, env: &Env) {
    let _ = env.log.wait_for(|e| e.kind == "S_CLOSE_CALL", Duration::from_secs(60));
    std::thread::sleep(Duration::from_micros(p.delay_us));
    let mut conn = match Conn::connect(env.addr) {
        Ok(c) => c,
        Err(e) => {
            env.count(format!("late_arrival_connect_{:?}", e.kind()));
            return;
        }
    };
    env.open_gate(p.uid);
    let bytes = drop_rqctx(mk_req(env.ctx.instance, "/gated", p.uid, 64, 0, 0), p.uid % 2 == 0).encode();
    env.log.push("C_SEND", p.uid, bytes.len() as i64, "late");
    // unjudged population (only counted): a shorter bound is enough
    let o = if conn.send(&bytes).is_ok() {
        read_and_verify(&mut conn, p.uid, 64, Duration::from_secs(10))
    } else {
        Outcome::Io("send".into())
    };
    env.log.push("C_RESP", p.uid, 0, &o.tag());
    env.count(format!("late_arrival_{}", o.tag()));
}

/// requests that complete with an ERROR response (handler returns Err after its
/// gate; unknown path; bad query) on one keep-alive connection, client stays
fn error_client(env: &Env) {
    let _ready = Ready(env.ready, false);
    let Some(mut conn) = env.connect("error") else { return };
    for path in ["/failing", "/no/such/path", "/typed?n=abc"] {
        let uid = next_uid();
        env.open_gate(uid);
        if conn.send(&mk_req(env.ctx.instance, path, uid, 0, 0, 0).encode()).is_err() {
            return;
        }
        let o = read_error_response(&mut conn, WD_READ);
        env.log.push("C_RESP", uid, 0, &o.tag());
        env.count(format!("error_ending_request_{}", o.tag()));
        if !matches!(o, Outcome::Status(_)) {
            return;
        }
    }
}

fn panic_client(uid: u64, env: &Env) -> Option<Outcome> {
    let _ready = Ready(env.ready, false);
    let mut conn = env.connect("panic")?;
    if conn.send(&mk_req(env.ctx.instance, "/panicking", uid, 10, 0, 0).encode()).is_err() {
        return None;
    }
    let o = read_and_verify(&mut conn, uid, 10, WD_READ);
    env.log.push("C_RESP", uid, 0, &o.tag());
    Some(o)
}

/// who holds a LISTEN socket on 127.0.0.1:port: "ours" (this process),
/// "foreign" (another process), "none", or "unknown" (/proc unreadable)
fn listener_owner(port: u16) -> &'static str {
    let Ok(tcp) = std::fs::read_to_string("/proc/net/tcp") else { return "unknown" };
    let want = format!("0100007F:{port:04X}");
    let any = format!("00000000:{port:04X}");
    let mut inodes = vec![];
    for l in tcp.lines().skip(1) {
        let f: Vec<&str> = l.split_whitespace().collect();
        if f.len() > 9 && (f[1] == want || f[1] == any) && f[3] == "0A" {
            inodes.push(f[9].to_string());
        }
    }
    if inodes.is_empty() {
        return "none";
    }
    let Ok(rd) = std::fs::read_dir("/proc/self/fd") else { return "unknown" };
    for e in rd.flatten() {
        if let Ok(t) = std::fs::read_link(e.path()) {
            let t = t.to_string_lossy().to_string();
            if inodes.iter().any(|i| t == format!("socket:[{i}]")) {
                return "ours";
            }
        }
    }
    "foreign"
}

pub struct Hang {
    pub kind: &'static str,
    pub mode: &'static str,
    pub quiescent: bool,
    pub witness: Value,
}

/// run one scenario; `record` = fold the outcome into `out` (false for re-runs
/// of a hang candidate, where only the returned Hang matters)
pub fn run_case(out: &mut Out, seed: u64, shard: u64, case: u64, record: bool) -> Option<Hang> {
    let mut rng = Rng::derive(seed, "c17-shutdown", shard, case);
    let sc = gen_scenario(&mut rng);
    let mut scratch = Report::new("C17", "c17-shutdown", RULE);
    let rep: &mut Report = if record { &mut out.rep } else { &mut scratch };
    rep.count("scenarios", 1);
    let m = mode_tag(sc.mode);
    let detached = sc.mode == HandlerTaskMode::Detached;
    let log = EvLog::new();
    let ctx = Ctx::new(log.clone());
    let cfg = SrvCfg { mode: sc.mode, body_max: 1024, versioned: None, workers: sc.workers };
    let mut running = {
        let mut g = REG.lock().unwrap();
        match vmon::srv::start(api(), ctx.clone(), &cfg) {
            Ok(r) => {
                g.insert(r.addr.port(), ctx.instance);
                r
            }
            Err(_) => {
                rep.inconclusive("c17-server-start-failed");
                return None;
            }
        }
    };
    let addr = running.addr;
    let handle = running.handle();
    let server = running.server.take().unwrap();
    let hogs = Hogs::start(&handle, sc.hogs);
    let ident = json!({"seed": seed, "shard": shard, "case": case, "scenario": sc.json()});

    // extra waiters: the futures are all obtained before close() consumes the
    // server; they start being awaited before the call / after the call /
    // after the return
    let (tx, rx) = tokio::sync::watch::channel(0u8);
    let n_waiters = sc.w_early + sc.w_late + sc.w_post;
    for i in 0..n_waiters {
        let fut = server.wait_for_shutdown();
        let stage: u8 = if i < sc.w_early {
            0
        } else if i < sc.w_early + sc.w_late {
            1
        } else {
            2
        };
        let mut rx = rx.clone();
        let log = log.clone();
        handle.spawn(async move {
            if rx.wait_for(|v| *v >= stage).await.is_err() {
                return;
            }
            log.push("S_WAITER_START", 0, i as i64, ["early", "late", "post"][stage as usize]);
            let r = fut.await;
            log.push("S_WAITER_RET", 0, i as i64, &format!("{r:?}"));
        });
    }
    // waiters that poll the shutdown future through futures::select! (the reason
    // ShutdownWaitFuture is a FusedFuture), next to a ticking branch
    for j in 0..sc.w_select {
        let i = n_waiters + j;
        let mut fut = server.wait_for_shutdown();
        let stage: u8 = (j % 2) as u8;
        let mut rx = rx.clone();
        let log = log.clone();
        let tick_us = 300 + 700 * j as u64;
        handle.spawn(async move {
            use futures::FutureExt;
            if rx.wait_for(|v| *v >= stage).await.is_err() {
                return;
            }
            log.push("S_WAITER_START", 0, i as i64, "select");
            let r = loop {
                let tick = tokio::time::sleep(Duration::from_micros(tick_us)).fuse();
                futures::pin_mut!(tick);
                futures::select! {
                    r = fut => break r,
                    _ = tick => {}
                }
            };
            log.push("S_WAITER_RET", 0, i as i64, &format!("{r:?}"));
        });
    }
    let n_waiters = n_waiters + sc.w_select;
    drop(rx);

    let ready = AtomicUsize::new(0);
    let incon = Mutex::new(vec![]);
    let counts = Mutex::new(BTreeMap::new());
    let env = Env { addr, ctx: &ctx, log: &log, ready: &ready, incon: &incon, counts: &counts };
    let expected_ready =
        sc.stay.len() + sc.idle_fresh + sc.idle_used + sc.half.len() + sc.left.len() + sc.panics.len()
            + sc.errs;
    let mut stay_out: Vec<Option<Outcome>> = vec![];
    let mut panic_out: Vec<Option<Outcome>> = vec![];
    let mut settle_wd = false;
    let mut server = Some(server);
    let mut tx = Some(tx);
    // gates that the opener thread owns: opened only after S_CLOSE_CALL is in
    // the log, by a thread that does not depend on close() returning
    let mut opener_uids: Vec<u64> = sc
        .stay
        .iter()
        .filter(|s| s.open == OpenWhen::AfterClose)
        .map(|s| s.uid)
        .chain(sc.left.iter().map(|l| l.uid))
        .collect();
    rng.shuffle(&mut opener_uids);
    let opener_delays: Vec<u64> = opener_uids.iter().map(|_| rng.below(2500)).collect();
    let first_delay = rng.below(20_000);

    std::thread::scope(|s| {
        let env = &env;
        macro_rules! spawn {
            ($f:expr) => {
                std::thread::Builder::new()
                    .stack_size(256 << 10)
                    .spawn_scoped(s, $f)
                    .expect("spawn client thread")
            };
        }
        let stay_hs: Vec<_> = sc
            .stay
            .iter()
            .map(|p| {
                std::thread::Builder::new()
                    .stack_size(256 << 10)
                    .spawn_scoped(s, move || stay_client(p, env))
                    .expect("spawn client thread")
            })
            .collect();
        let panic_hs: Vec<_> = sc
            .panics
            .iter()
            .map(|u| {
                let u = *u;
                std::thread::Builder::new()
                    .stack_size(256 << 10)
                    .spawn_scoped(s, move || panic_client(u, env))
                    .expect("spawn client thread")
            })
            .collect();
        for i in 0..sc.idle_fresh + sc.idle_used {
            let used = i >= sc.idle_fresh;
            spawn!(move || idle_client(used, env));
        }
        for p in &sc.half {
            spawn!(move || {
                half_client(p, env);
            });
        }
        for p in &sc.left {
            spawn!(move || left_client(p, env));
        }
        for p in &sc.late {
            spawn!(move || late_client(p, env));
        }
        for _ in 0..sc.errs {
            spawn!(move || error_client(env));
        }
        // opener
        let ou = &opener_uids;
        let od = &opener_delays;
        spawn!(move || {
            let _ = env.log.wait_for(|e| e.kind == "S_CLOSE_CALL", Duration::from_secs(120));
            std::thread::sleep(Duration::from_micros(first_delay));
            for (u, d) in ou.iter().zip(od.iter()) {
                std::thread::sleep(Duration::from_micros(*d));
                env.open_gate(*u);
            }
        });

        // when is close() called?
        match sc.race_us {
            None => {
                let dl = Instant::now() + Duration::from_secs(60);
                while ready.load(Ordering::SeqCst) < expected_ready {
                    if Instant::now() > dl {
                        settle_wd = true;
                        break;
                    }
                    std::thread::sleep(Duration::from_micros(200));
                }
            }
            Some(us) => std::thread::sleep(Duration::from_micros(us)),
        }
        {
            let server = server.take().expect("server taken once");
            let tx = tx.take().expect("tx taken once");
            let log = log.clone();
            handle.spawn(async move {
                use futures::FutureExt;
                log.push("S_CLOSE_CALL", 0, 0, "");
                let _ = tx.send(1);
                // close() itself may panic when the server task has died: an
                // outcome to report, not a reason to lose the scenario
                match std::panic::AssertUnwindSafe(server.close()).catch_unwind().await {
                    Ok(r) => log.push("S_CLOSE_RET", 0, r.is_ok() as i64, &format!("{r:?}")),
                    Err(_) => log.push("S_CLOSE_RET", 0, -1, "close() panicked"),
                };
                let _ = tx.send(2);
                // keep the channel alive so that late subscribers see the value
                std::future::pending::<()>().await;
            });
        }
        for h in stay_hs {
            stay_out.push(h.join().unwrap_or(None));
        }
        for h in panic_hs {
            panic_out.push(h.join().unwrap_or(None));
        }
    });
    // every client thread has ended: every client socket is closed
    log.push("D_CLIENTS_GONE", 0, 0, "");
    // safety net: open whatever is still shut (requests that never entered)
    for u in sc.stay.iter().map(|s| s.uid).chain(sc.left.iter().map(|l| l.uid)) {
        env.open_gate(u);
    }
    let quiescent = wait_handlers_ended(&log, Duration::from_secs(15));
    log.push("D_QUIESCENT", 0, quiescent as i64, "");
    let close_ret = log.wait_for(|e| e.kind == "S_CLOSE_RET", WD_CLOSE);
    let mut hang: Option<&'static str> = None;
    if close_ret.is_none() {
        hang = Some("close");
    } else if n_waiters > 0 {
        let dl = Instant::now() + Duration::from_secs(10);
        while log.count_kind("S_WAITER_RET") < n_waiters {
            if Instant::now() > dl {
                // which waiters are missing?
                let evs = log.snapshot();
                let only_select = evs
                    .iter()
                    .filter(|e| e.kind == "S_WAITER_START")
                    .filter(|st| !evs.iter().any(|r| r.kind == "S_WAITER_RET" && r.n == st.n))
                    .all(|st| st.s == "select");
                hang = Some(if only_select { "waiter:select" } else { "waiter" });
                break;
            }
            std::thread::sleep(Duration::from_millis(1));
        }
    }
    drop(hogs);

    // (3) the old address after close returned
    let mut probe: Option<(String, Option<Value>)> = None;
    if close_ret.is_some() {
        probe = Some(port_probe(addr, ctx.instance, &log, m, &ident));
    }
    let events = log.snapshot();
    drop(running);

    if let Some(kind) = hang {
        HANGS.fetch_add(1, Ordering::SeqCst);
        let h = Hang {
            kind,
            mode: m,
            quiescent: quiescent && !settle_wd,
            witness: json!({"ident": ident, "what": match kind {
                "close" => "every client socket is closed and every started handler has ended, yet close() has not returned 30 s later",
                "waiter:select" => "close() returned and every plain .await waiter was released, yet a waiter that polls wait_for_shutdown() through futures::select! (FusedFuture) next to a ticking branch has not been released 10 s later",
                _ => "close() returned, yet a wait_for_shutdown() waiter has not been released 10 s later",
            }, "handlers_all_ended": quiescent, "history": history_json(&events, 400)}),
        };
        if record {
            count_kinds(rep, &events);
            out.hangs.push((shard, case, format!("{kind}|{m}")));
            if out.notes.len() < 6 {
                out.notes.push(h.witness.clone());
            }
        }
        return Some(h);
    }

    // ------------------------------------------------------------- oracle
    count_kinds(rep, &events);
    if record {
        out.maxc = out.maxc.max(max_concurrency(&events));
    }
    for r in incon.lock().unwrap().iter() {
        rep.inconclusive(r);
    }
    for (k, v) in counts.lock().unwrap().iter() {
        rep.count(k, *v);
    }
    if settle_wd {
        rep.inconclusive("c17-settle-watchdog");
    }
    if !quiescent {
        rep.inconclusive("c17-handlers-not-ended-watchdog");
        if record {
            if out.notes.len() < 6 {
                out.notes.push(json!({"ident": ident, "what": "handlers not ended 15 s after every client left",
                                      "history": history_json(&events, 400)}));
            }
        }
    }
    let idx = index(&events);
    let (Some(call), Some(ret_ev)) = (
        events.iter().find(|e| e.kind == "S_CLOSE_CALL").map(|e| e.seq),
        events.iter().find(|e| e.kind == "S_CLOSE_RET"),
    ) else {
        rep.inconclusive("c17-close-events-missing");
        return None;
    };
    let ret = ret_ev.seq;
    rep.count(
        &format!("close_result_{}", match ret_ev.n { 1 => "ok", 0 => "err", _ => "panicked" }),
        1,
    );
    if ret_ev.n < 0 {
        rep.violate(
            format!("C17:{m}:close-panicked"),
            json!({"ident": ident, "what": "HttpServer::close() panicked instead of returning",
                   "history": history_json(&events, 300)}),
        );
    }
    let empty = UidHist::default();
    let extra = [("C", call), ("Z", ret)];

    let mut all: Vec<(u64, &'static str, Option<&Outcome>, bool)> = vec![]; // uid, population, outcome, client stays
    for (p, o) in sc.stay.iter().zip(stay_out.iter()) {
        all.push((p.uid, if p.drop_rqctx { "stay~rqctx-dropped-early" } else { "stay" }, o.as_ref(), true));
        if let Some(w) = p.warm {
            all.push((w, "warmup", None, false));
        }
    }
    for p in &sc.half {
        all.push((p.uid, if p.finish { "half-finish" } else { "half-leave" }, None, false));
    }
    for p in &sc.left {
        all.push((p.uid, if p.drop_rqctx { "left~rqctx-dropped-early" } else { "left" }, None, false));
    }
    for p in &sc.late {
        all.push((p.uid, "late", None, false));
    }
    for (u, o) in sc.panics.iter().zip(panic_out.iter()) {
        all.push((*u, "panic", o.as_ref(), false));
    }
    let mut judged_end: Vec<(u64, Option<u64>)> = vec![];
    for (uid, pop, outcome, stays) in &all {
        let h = idx.get(uid).unwrap_or(&empty);
        let entered_before = h.enter.first().map(|e| *e < call).unwrap_or(false);
        let entered = !h.enter.is_empty();
        let ord = ordering(h, if entered { &extra } else { &[] });
        let wit = |what: &str| {
            json!({"ident": ident, "what": what, "uid": uid, "population": pop,
                   "client_outcome": outcome.map(|o| o.json()),
                   "S_CLOSE_CALL.seq": call, "S_CLOSE_RET.seq": ret, "ordering": ord,
                   "uid_history": h.json()})
        };
        // (1) started before the call, client stays: complete correct response
        if *stays && entered_before {
            match outcome {
                Some(Outcome::Ok200) => rep.count("started_before_close_answered_ok", 1),
                Some(o) if o.is_harness_trouble() => {
                    rep.inconclusive(&format!("c17-stay-client-{}", o.tag()))
                }
                Some(o) => rep.violate(
                    format!("C17:{m}:started-request-response-{}", o.tag()),
                    wit("handler started before close() was called and the client stayed, but it did not receive its complete correct response"),
                ),
                None => {}
            }
        } else if *stays && !entered_before {
            if let Some(o) = outcome {
                rep.count(&format!("stay_not_started_before_close_{}", o.tag()), 1);
            }
        }
        if *pop == "panic" {
            if let Some(o) = outcome {
                rep.count(&format!("panic_client_saw_{}", o.tag()), 1);
            }
        }
        // (2) close() returns only after the handler has ended
        let judged = entered_before || (detached && entered);
        if judged {
            judged_end.push((*uid, h.ending()));
            match h.ending() {
                Some(e) if e < ret => rep.count("handler_ended_before_close_returned", 1),
                _ => rep.violate(
                    format!(
                        "C17:{m}:close-returned-before-handler-finished:{}",
                        if *stays { "client-stayed" } else if entered_before { "client-gone-or-other" } else { "started-after-call" }
                    ),
                    wit("S_CLOSE_RET precedes the end (H_DONE / H_DROP) of a handler that shutdown has to wait for"),
                ),
            }
        } else if entered {
            rep.count(
                if h.ending().map(|e| e < ret).unwrap_or(false) {
                    "unjudged_late_handler_ended_before_close_returned"
                } else {
                    "unjudged_late_handler_not_ended_at_close_return"
                },
                1,
            );
        }
        if entered {
            let cls = format!("{m}|{pop}|{ord}|{}", outcome.map(|o| o.tag()).unwrap_or_default());
            if record {
                out.inter.insert(format!(
                    "{m}|{pop}|{}",
                    ord.chars().filter(|c| "ECFXPZdG".contains(*c)).collect::<String>()
                ));
            }
            rep.eval(cls);
            if rep.want_sample() {
                rep.sample(json!({"ident": ident, "uid": uid, "population": pop, "ordering": ord,
                                  "uid_history": h.json()}));
            }
        } else {
            rep.count(&format!("never_entered_{pop}"), 1);
        }
    }
    // (3)
    if let Some((res, viol)) = probe {
        rep.count(&format!("port_probe_{res}"), 1);
        if let Some(v) = viol {
            let sig = v["sig"].as_str().unwrap().to_string();
            rep.violate(sig, v);
        } else if res.starts_with("inconclusive") {
            rep.inconclusive(&format!("c17-port-probe-{res}"));
        }
    }
    // (4) all waiters released with the same result as close()
    let rets: Vec<&vmon::evlog::Event> =
        events.iter().filter(|e| e.kind == "S_WAITER_RET").collect();
    rep.count("waiters_released", rets.len() as u64);
    for w in &rets {
        if w.s != ret_ev.s {
            rep.violate(
                format!("C17:{m}:waiter-result-differs"),
                json!({"ident": ident, "close_result": ret_ev.s, "waiter": w.json(),
                       "history": history_json(&events, 200)}),
            );
        }
        // a released waiter means shutdown has finished: not before close() was
        // even called, and not before the handlers shutdown has to wait for
        if w.seq < call {
            rep.violate(
                format!("C17:{m}:waiter-released-before-close-called"),
                json!({"ident": ident, "waiter": w.json(), "S_CLOSE_CALL.seq": call,
                       "history": history_json(&events, 200)}),
            );
        } else if let Some((u, e)) =
            judged_end.iter().find(|(_, e)| e.map(|e| e > w.seq).unwrap_or(true))
        {
            rep.violate(
                format!("C17:{m}:waiter-released-before-handler-finished"),
                json!({"ident": ident, "waiter": w.json(), "uid": u, "handler_end_seq": e,
                       "uid_history": idx.get(u).map(|h| h.json()),
                       "what": "a wait_for_shutdown() waiter was released while a handler that shutdown has to wait for had not ended"}),
            );
        }
        let start = events
            .iter()
            .find(|e| e.kind == "S_WAITER_START" && e.n == w.n)
            .map(|e| e.s.clone())
            .unwrap_or_default();
        if record {
            out.inter.insert(format!(
                "{m}|waiter-{start}|{}",
                if w.seq < ret { "W<Z" } else { "Z<W" }
            ));
        }
    }
    rep.eval(format!(
        "sc|{m}|{}|{}|w{}{}{}",
        if sc.race_us.is_some() { "race" } else { "settled" },
        sc.pops(),
        (sc.w_early > 0) as u8,
        (sc.w_late > 0) as u8,
        (sc.w_post > 0) as u8
    ));
    None
}

fn port_probe(
    addr: SocketAddr,
    old_instance: u64,
    log: &EvLog,
    m: &str,
    ident: &Value,
) -> (String, Option<Value>) {
    let mut c = match Conn::connect(addr) {
        Err(e) if e.kind() == std::io::ErrorKind::ConnectionRefused => {
            log.push("PORT_PROBE", 0, 0, "refused");
            return ("refused".into(), None);
        }
        Err(e) => {
            log.push("PORT_PROBE", 0, 0, &format!("error {e}"));
            return ("inconclusive-connect-error".into(), None);
        }
        Ok(c) => c,
    };
    let _ = c.send(&vmon::client::Req::new("GET", "/whoami").encode());
    match c.read_response_within(false, Duration::from_secs(5)) {
        Ok(r) => {
            let inst = r.header_str("x-vmon-instance");
            log.push("PORT_PROBE", 0, 0, &format!("answered by instance {inst:?}"));
            if inst == Some(old_instance.to_string()) {
                (
                    "old-instance-answered".into(),
                    Some(json!({"sig": format!("C17:{m}:old-instance-answers-after-close"),
                                "ident": ident, "old_instance": old_instance,
                                "what": "after close() returned, a new connection to the old address was accepted and answered by the old server instance"})),
                )
            } else {
                ("port-reused-by-other-server".into(), None)
            }
        }
        Err(e) => {
            // accepted but not answered: who is listening?
            // REG keeps the last harness server that bound each port; the lock
            // also covers binds, so no server of ours is half-started here
            let g = REG.lock().unwrap();
            if g.get(&addr.port()) != Some(&old_instance) {
                log.push("PORT_PROBE", 0, 0, "accepted by a newer harness server");
                return ("port-reused-by-other-server".into(), None);
            }
            let owner = listener_owner(addr.port());
            drop(g);
            log.push("PORT_PROBE", 0, 0, &format!("accepted, no answer ({e:?}), listener owner: {owner}"));
            match owner {
                "ours" => (
                    "still-listening".into(),
                    Some(json!({"sig": format!("C17:{m}:port-still-listening-after-close"),
                                "ident": ident,
                                "what": "after close() returned the old address still accepts connections: a LISTEN socket on it belongs to this process although no live harness server owns that port"})),
                ),
                // the old listener lived in this process: a listener owned by
                // another process is not it
                "foreign" => ("port-reused-by-foreign-process".into(), None),
                _ => ("inconclusive-accepted-by-unknown".into(), None),
            }
        }
    }
}

pub fn run_shard(seed: u64, shard: u64, nshards: u64, total: u64) -> Out {
    let mut out = Out::new(Report::new("C17", "c17-shutdown", RULE));
    let mut case = shard;
    while case < total {
        if HANGS.load(Ordering::SeqCst) >= 3 {
            out.rep.inconclusive("c17-skipped-after-repeated-hang-candidates");
        } else if vmon::panics::catch_quiet(std::panic::AssertUnwindSafe(|| {
            run_case(&mut out, seed, shard, case, true);
        }))
        .is_err()
        {
            out.rep.inconclusive("c17-scenario-aborted-by-harness-panic");
        }
        case += nshards;
    }
    out
}

/// the disciplined exception of DESIGN §3.4: re-run hang candidates three times
/// alone; 3/3 hangs at logical quiescence = deadlock = violation
pub fn finish(out: &mut Out, seed: u64) {
    let hangs = std::mem::take(&mut out.hangs);
    // re-run at most one candidate per (kind, mode)
    let mut seen: std::collections::BTreeSet<String> = Default::default();
    for (shard, case, km) in hangs.iter() {
        let kind = km.split('|').next().unwrap();
        if !seen.insert(km.clone()) {
            out.rep.inconclusive(&format!("c17-{kind}-watchdog-not-rerun"));
            continue;
        }
        let mut same = 0;
        let mut last: Option<Hang> = None;
        for _ in 0..3 {
            let mut scratch = Out::new(Report::new("C17", "c17-shutdown", RULE));
            match run_case(&mut scratch, seed, *shard, *case, false) {
                Some(h) if h.kind == kind && h.quiescent => {
                    same += 1;
                    last = Some(h);
                }
                _ => break,
            }
        }
        out.rep.count("hang_candidates_rerun", 1);
        match (same, last) {
            (3, Some(h)) => {
                let sig = match h.kind {
                    "close" => format!("C17:{}:close-hangs-at-quiescence", h.mode),
                    "waiter:select" => format!("C17:{}:waiter-never-released:select", h.mode),
                    _ => format!("C17:{}:waiter-never-released", h.mode),
                };
                let mut w = h.witness;
                w["reruns_alone_hanging"] = json!("3/3");
                out.rep.violate(sig, w);
            }
            _ => out.rep.inconclusive(&format!("c17-{kind}-watchdog")),
        }
    }
    out.flush_notes();
    let mut by: BTreeMap<String, u64> = BTreeMap::new();
    for s in &out.inter {
        let key: Vec<&str> = s.split('|').take(2).collect();
        *by.entry(key.join("|")).or_insert(0) += 1;
    }
    out.rep.extra.insert("distinct_interleavings".into(), json!(out.inter.len()));
    out.rep.extra.insert("distinct_orderings_by_mode_population".into(), json!(by));
    out.rep.extra.insert("max_observed_concurrency".into(), json!(out.maxc));
    out.rep.extra.insert(
        "interleavings_sample".into(),
        json!(out.inter.iter().take(60).collect::<Vec<_>>()),
    );
}
