//! C17 over HTTP/2: graceful shutdown with multiplexed streams.  One h2 connection
//! (its client stays alive and keeps reading throughout) carries `a` in-flight
//! requests to gated handlers and `b` requests that already completed; optionally a
//! second h2 connection and an HTTP/1.1 keep-alive connection sit idle.  close() is
//! called while the in-flight handlers wait; their gates open only afterwards.

use crate::common::*;
use serde_json::json;
use std::time::{Duration, Instant};
use vmon::client::Conn;
use vmon::evlog::{next_uid, EvLog};
use vmon::report::Report;
use vmon::rng::Rng;
use vmon::srv::{Ctx, SrvCfg};

const WD: Duration = Duration::from_secs(30);

type Answer = Result<(u16, Vec<u8>), String>;

async fn read_answer(resp: h2::client::ResponseFuture) -> Answer {
    tokio::time::timeout(WD, async {
        let resp = resp.await.map_err(|e| format!("response: {e}"))?;
        let status = resp.status().as_u16();
        let mut body = resp.into_body();
        let mut got = vec![];
        while let Some(chunk) = body.data().await {
            let chunk = chunk.map_err(|e| format!("body after {} bytes: {e}", got.len()))?;
            let _ = body.flow_control().release_capacity(chunk.len());
            got.extend_from_slice(&chunk);
        }
        Ok::<_, String>((status, got))
    })
    .await
    .unwrap_or_else(|_| Err("watchdog".into()))
}

async fn h2_connect(addr: std::net::SocketAddr) -> Result<(h2::client::SendRequest<bytes::Bytes>, tokio::task::JoinHandle<()>), String> {
    let tcp = tokio::time::timeout(Duration::from_secs(10), tokio::net::TcpStream::connect(addr))
        .await
        .map_err(|_| "connect timeout".to_string())?
        .map_err(|e| format!("connect: {e}"))?;
    let mut hb = h2::client::Builder::new();
    hb.initial_window_size(8 << 20).initial_connection_window_size(64 << 20);
    let (client, conn) = tokio::time::timeout(Duration::from_secs(10), hb.handshake::<_, bytes::Bytes>(tcp))
        .await
        .map_err(|_| "handshake timeout".to_string())?
        .map_err(|e| format!("handshake: {e}"))?;
    let task = tokio::spawn(async move {
        let _ = conn.await;
    });
    let client = client.ready().await.map_err(|e| format!("ready: {e}"))?;
    Ok((client, task))
}

pub fn run_case(rep: &mut Report, seed: u64, shard: u64, case: u64) {
    let mut rng = Rng::derive(seed, "c17-h2", shard, case);
    let detached = rng.bool();
    let mode = if detached { dropshot::HandlerTaskMode::Detached } else { dropshot::HandlerTaskMode::CancelOnDisconnect };
    let m = mode_tag(mode);
    let log = EvLog::new();
    let ctx = Ctx::new(log.clone());
    let cfg = SrvCfg { mode, body_max: 1 << 20, versioned: None, workers: 1 + rng.usize(4) };
    let mut running = match vmon::srv::start(api(), ctx.clone(), &cfg) {
        Ok(r) => r,
        Err(_) => {
            rep.inconclusive("c17-h2-server-start-failed");
            return;
        }
    };
    let addr = running.addr;
    let inst = ctx.instance;
    let a = rng.usize(4);
    let b = rng.usize(3);
    let idle_h2 = rng.chance(1, 3);
    let idle_h1 = rng.chance(1, 3);
    let inflight: Vec<(u64, usize, &'static str)> = (0..a)
        .map(|_| (next_uid(), *rng.pick(&[0usize, 64, 5000, 70_000, 300_000, 2_000_000]), if rng.chance(1, 3) { "/stepping" } else { "/gated" }))
        .collect();
    let gap_us = rng.below(8000);
    let ident = json!({"seed": seed, "shard": shard, "case": case, "mode": m, "transport": "h2 (prior knowledge)",
        "in_flight": inflight.iter().map(|(u, s, p)| json!({"uid": u, "size": s, "path": p})).collect::<Vec<_>>(),
        "completed_before_close": b, "idle_second_h2_connection": idle_h2, "idle_http1_connection": idle_h1});
    rep.count("scenarios", 1);
    let rt = match tokio::runtime::Builder::new_multi_thread().worker_threads(2).enable_all().build() {
        Ok(r) => r,
        Err(_) => {
            rep.inconclusive("c17-h2-client-runtime");
            return;
        }
    };
    // ---- set-up: connections, completed streams, in-flight streams entered
    let mk = |uid: u64, size: usize, path: &str| {
        http::Request::builder()
            .method("GET")
            .uri(format!("http://{addr}{path}"))
            .header("x-vmon-uid", uid.to_string())
            .header("x-vmon-instance", inst.to_string())
            .header("x-vmon-size", size.to_string())
            .header("x-vmon-k", "3")
            .header("x-vmon-step-us", "300")
            .body(())
            .unwrap()
    };
    let setup = rt.block_on(async {
        let (mut client, task) = h2_connect(addr).await?;
        for _ in 0..b {
            let uid = next_uid();
            ctx.gates.open(uid);
            let (resp, _) = client.send_request(mk(uid, 100, "/gated"), true).map_err(|e| format!("send_request: {e}"))?;
            match read_answer(resp).await {
                Ok((200, _)) => {}
                other => return Err(format!("warm-up stream: {other:?}").chars().take(80).collect()),
            }
            client = client.ready().await.map_err(|e| format!("ready: {e}"))?;
        }
        let mut pending = vec![];
        for (uid, size, path) in &inflight {
            let (resp, _) = client.send_request(mk(*uid, *size, path), true).map_err(|e| format!("send_request: {e}"))?;
            pending.push((*uid, tokio::spawn(read_answer(resp))));
            client = client.ready().await.map_err(|e| format!("ready: {e}"))?;
        }
        let second = if idle_h2 { Some(h2_connect(addr).await?) } else { None };
        Ok::<_, String>((client, task, pending, second))
    });
    let (client, task, pending, second) = match setup {
        Ok(x) => x,
        Err(e) => {
            rep.inconclusive(&format!("c17-h2-setup: {}", e.chars().take(40).collect::<String>()));
            for (u, _, _) in &inflight {
                ctx.gates.open(*u);
            }
            drop(rt);
            let _ = close_wd(&mut running, 20);
            return;
        }
    };
    let h1 = if idle_h1 {
        let hu = next_uid();
        ctx.gates.open(hu);
        Conn::connect(addr).ok().and_then(|mut c| {
            c.send(&mk_req(inst, "/gated", hu, 50, 0, 0).encode()).ok()?;
            matches!(read_and_verify(&mut c, hu, 50, WD), Outcome::Ok200).then_some(c)
        })
    } else {
        None
    };
    let dl = Instant::now() + WD;
    let all_entered = inflight.iter().all(|(u, _, _)| {
        let u = *u;
        log.wait_for(|e| e.kind == "H_ENTER" && e.uid == u, dl.saturating_duration_since(Instant::now())).is_some()
    });
    if !all_entered {
        rep.inconclusive("c17-h2-handlers-not-entered");
        for (u, _, _) in &inflight {
            ctx.gates.open(*u);
        }
        drop(rt);
        let _ = close_wd(&mut running, 20);
        return;
    }
    // ---- close() is called while the handlers wait
    let server = running.server.take().expect("server");
    let lg = log.clone();
    running.handle().spawn(async move {
        use futures::FutureExt;
        lg.push("S_CLOSE_CALL", 0, 0, "");
        match std::panic::AssertUnwindSafe(server.close()).catch_unwind().await {
            Ok(r) => lg.push("S_CLOSE_RET", 0, r.is_ok() as i64, &format!("{r:?}")),
            Err(_) => lg.push("S_CLOSE_RET", 0, -1, "close() panicked"),
        };
    });
    let _ = log.wait_for(|e| e.kind == "S_CLOSE_CALL", WD);
    std::thread::sleep(Duration::from_micros(gap_us));
    for (u, _, _) in &inflight {
        ctx.gates.open(*u);
        log.push("G_OPEN", *u, 0, "");
    }
    // the clients stay: collect the answers of the in-flight streams
    let answers: Vec<(u64, Answer)> = rt.block_on(async {
        let mut out = vec![];
        for (uid, h) in pending {
            out.push((uid, h.await.unwrap_or_else(|_| Err("client task failed".into()))));
        }
        out
    });
    // close() must now return while every client is still connected (idle connections
    // and finished streams hold nothing up)
    let mut held_up = false;
    let mut ret = log.wait_for(|e| e.kind == "S_CLOSE_RET", WD);
    if ret.is_none() {
        // bounded progress: release the clients; a return right after that means
        // shutdown was waiting for connections with nothing in flight
        drop(client);
        task.abort();
        drop(second);
        drop(h1);
        drop(rt);
        ret = log.wait_for(|e| e.kind == "S_CLOSE_RET", WD);
        held_up = ret.is_some();
    } else {
        drop(client);
        task.abort();
        drop(second);
        drop(h1);
        drop(rt);
    }
    // after shutdown: nobody answers for this instance on that port any more
    let mut served_after = None;
    if ret.is_some() {
        let pu = next_uid();
        ctx.gates.open(pu);
        if let Ok(mut c) = Conn::connect(addr) {
            if c.send(&mk_req(inst, "/gated", pu, 10, 0, 0).encode()).is_ok() {
                if let Outcome::Ok200 = read_and_verify(&mut c, pu, 10, Duration::from_secs(5)) {
                    served_after = Some(pu);
                }
            }
        }
    }
    let events = log.snapshot();
    drop(running);
    // ---------------------------------------------------------------- oracle
    let idx = index(&events);
    let empty = UidHist::default();
    rep.eval(format!("h2|{m}|inflight{a}|done{b}|idle-h2:{}|idle-h1:{}", idle_h2 as u8, idle_h1 as u8));
    let close_ret = events.iter().find(|e| e.kind == "S_CLOSE_RET");
    let all_answered = answers.iter().all(|(_, r)| r.is_ok());
    match close_ret {
        None => rep.inconclusive("c17-h2-close-did-not-return-within-watchdogs"),
        Some(e) if e.n < 0 => rep.violate("C17:h2:close-panicked", json!({"ident": ident, "close": e.s})),
        Some(e) if e.n == 0 => rep.violate("C17:h2:close-returned-error", json!({"ident": ident, "close": e.s, "history": history_json(&events, 200)})),
        Some(_) if held_up && all_answered => rep.violate(
            "C17:h2:shutdown-held-up-by-connections-with-nothing-in-flight",
            json!({"ident": ident, "what": "close() had not returned 30 s after every in-flight answer was received by its client; it returned once the clients disconnected",
                   "history": history_json(&events, 200)}),
        ),
        Some(_) if held_up => rep.inconclusive("c17-h2-close-returned-only-after-release-but-answers-incomplete"),
        Some(_) => rep.count("close_returned_with_clients_connected", 1),
    }
    if let Some(ret) = close_ret {
        for (uid, _, _) in &inflight {
            let h = idx.get(uid).unwrap_or(&empty);
            let ended = h.ending();
            if ended.map(|s| s > ret.seq).unwrap_or(true) && !h.enter.is_empty() {
                rep.violate(
                    "C17:h2:shutdown-finished-before-started-handler",
                    json!({"ident": ident, "uid": uid, "close_ret_seq": ret.seq, "uid_history": h.json()}),
                );
            }
        }
    }
    for (uid, size, _) in &inflight {
        let h = idx.get(uid).unwrap_or(&empty);
        let wit = |what: &str| json!({"ident": ident, "what": what, "uid": uid, "uid_history": h.json()});
        if h.done.len() > 1 || h.enter.len() > 1 {
            rep.violate("C17:h2:handler-ran-twice", wit("more than one H_ENTER/H_DONE"));
        }
        match answers.iter().find(|(u, _)| u == uid).map(|(_, r)| r) {
            Some(Ok((200, body))) if *body == payload(*uid, *size) => rep.count("in_flight_answers_complete", 1),
            Some(Ok((st, body))) => rep.violate(
                format!("C17:h2:{m}:in-flight-response-wrong"),
                wit(&format!("status {st}, {} of {} body bytes", body.len(), size)),
            ),
            Some(Err(e)) if e == "watchdog" => rep.inconclusive("c17-h2-answer-watchdog"),
            Some(Err(e)) => rep.violate(
                format!("C17:h2:{m}:in-flight-response-lost"),
                wit(&format!("the client stayed connected and got: {e}")),
            ),
            None => {}
        }
    }
    if let Some(pu) = served_after {
        rep.violate(
            "C17:h2:request-served-after-shutdown-finished",
            json!({"ident": ident, "uid": pu, "what": "a fresh connection to the old port was answered by the closed server instance"}),
        );
    } else if close_ret.is_some() {
        rep.count("port_not_served_after_close", 1);
    }
}

fn close_wd(r: &mut vmon::srv::Running, _secs: u64) -> Option<Result<(), String>> {
    // bounded from outside the server's runtime (vmon::srv::CLOSE_WATCHDOG_S); a close()
    // that does not return is no verdict here
    match r.close() {
        Some(Err(e)) if e.contains(vmon::srv::CLOSE_HUNG) => None,
        other => other,
    }
}

pub fn run_shard(seed: u64, shard: u64, nshards: u64, total: u64) -> Out {
    let rep = Report::new(
        "C17",
        "E3-shutdown-history-h2",
        "HTTP/2 (prior knowledge, h2 crate client that stays connected and keeps reading): 0-3 in-flight streams to gated/stepping handlers \
         (answers of 0 B - 2 MB), 0-2 streams completed earlier on the same connection, optionally an idle second h2 connection and an idle \
         HTTP/1.1 keep-alive connection; close() is called once every in-flight handler has logged H_ENTER, gates open 0-8 ms later.  Rules: \
         S_CLOSE_RET comes after the ending of every started handler (sequence order); every in-flight stream is answered 200 with its \
         exact payload; close() returns Ok while the clients are still connected (if it only returns after they were released 30 s later \
         although every answer had been received: violation; no return at all: inconclusive); afterwards a fresh connection to the old \
         port is not answered by this server instance; class = (mode, #in-flight, #completed, idle connections)",
    );
    let mut out = Out::new(rep);
    let mut case = shard;
    while case < total {
        run_case(&mut out.rep, seed, shard, case);
        case += nshards;
    }
    out
}
