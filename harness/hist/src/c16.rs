//! C16 — disconnects affect handlers exactly as the task mode promises.
//! History monitor: real servers (both task modes, 1/2/4/16 workers, optional
//! CPU hogs), 1–128 concurrent raw-socket clients, victims disconnecting by
//! close or RST at P0..P3; oracle over the recorded event history.

use crate::common::*;
use dropshot::HandlerTaskMode;
use serde_json::{json, Value};
use std::collections::BTreeMap;
use std::net::SocketAddr;
use std::sync::atomic::{AtomicUsize, Ordering};
use std::time::{Duration, Instant};
use vmon::client::Conn;
use vmon::evlog::{next_uid, EvLog};
use vmon::report::Report;
use vmon::rng::Rng;
use vmon::srv::{Ctx, Running, SrvCfg, C};

pub const RULE: &str = "one case = one request (uid) of a generated scenario \
(task mode detached/cancel/default-mode = not named in the configuration, judged as the \
documented default Detached x final close() after all handlers ended / called while \
victims' handlers still wait (detached oracle only; C close called, Z close returned) x \
handler keeps / drops its RequestContext before waiting x tokio workers 1/2/4/16 x CPU hogs x 1..128 concurrent connections x \
per-request handler kind gated/gated-post/stepping/big/panicking/handler-returns-error/\
unknown-path/bad-query (requests ending with an error response, clients stay)/(rare, tagged) \
stream-unread-body x disconnect phase \
P0 head half-sent/P0b body half-sent/P1 after last byte/P2 after observed H_ENTER/P3 \
after H_DONE during the 8 MB response write/P4 never x style close/RST); class = \
mode|kind|phase|style|order of that uid's events by seq (E enter, s steps, S sent, \
d/D disconnect call/return, G gate opened, F done, X cancelled-drop, x drop after \
completion, P panic-drop, R response read)|client outcome";

const STREAM_BODY: usize = 200_000;
const WD_OBSERVE: Duration = Duration::from_secs(20);
const WD_CANCEL: Duration = Duration::from_secs(10);
const WD_READ: Duration = Duration::from_secs(40);

#[derive(Clone, Copy, PartialEq, Debug)]
enum Kind {
    Gated,
    GatedPost,
    Stepping,
    Big,
    Panicking,
    /// tagged exotic class: POST with a 200 kB body to a handler that holds the
    /// body unread while it waits (StreamingBody extractor)
    Stream,
    /// requests that END WITH AN ERROR RESPONSE and whose clients stay: a handler
    /// returning Err after its gate, an unknown path (404), a bad query (400)
    Failing,
    NotFound,
    BadQuery,
    /// panicking request with a second request pipelined behind it on the
    /// same connection (separately tagged class, counted, not judged)
    PanicPipe,
}

impl Kind {
    /// does a handler of this kind wait for its per-uid gate?
    fn has_gate(self) -> bool {
        !matches!(self, Kind::Panicking | Kind::PanicPipe | Kind::NotFound | Kind::BadQuery)
    }
    fn error_ending(self) -> bool {
        matches!(self, Kind::Failing | Kind::NotFound | Kind::BadQuery)
    }
    fn tag(self) -> &'static str {
        match self {
            Kind::Gated => "gated",
            Kind::GatedPost => "gated-post",
            Kind::Stepping => "stepping",
            Kind::Big => "big",
            Kind::Stream => "stream-unread-body",
            Kind::Failing => "handler-returns-error",
            Kind::NotFound => "unknown-path",
            Kind::BadQuery => "bad-query",
            Kind::Panicking => "panicking",
            Kind::PanicPipe => "panic+pipelined",
        }
    }
    fn path(self) -> &'static str {
        match self {
            Kind::Gated | Kind::GatedPost => "/gated",
            Kind::Stepping => "/stepping",
            Kind::Big => "/big",
            Kind::Stream => "/stream",
            Kind::Failing => "/failing",
            Kind::NotFound => "/no/such/path",
            Kind::BadQuery => "/typed?n=abc",
            Kind::Panicking | Kind::PanicPipe => "/panicking",
        }
    }
}

#[derive(Clone, Copy, PartialEq, Debug)]
enum Phase {
    P0,
    P0b,
    P1,
    P2,
    P3,
    P4,
}

impl Phase {
    fn tag(self) -> &'static str {
        match self {
            Phase::P0 => "P0",
            Phase::P0b => "P0b",
            Phase::P1 => "P1",
            Phase::P2 => "P2",
            Phase::P3 => "P3",
            Phase::P4 => "P4",
        }
    }
}

#[derive(Clone, Copy, PartialEq, Debug)]
enum OpenAt {
    Pre,
    AfterEnter,
    AtRelease,
}

#[derive(Clone, Debug)]
struct Plan {
    uid: u64,
    /// second request: keep-alive follow-up (P4 gated) or pipelined (PanicPipe)
    uid2: Option<u64>,
    kind: Kind,
    phase: Phase,
    style: Style,
    size: usize,
    k: u64,
    step_us: u64,
    open_at: OpenAt,
    delay_us: u64,
    cut_permille: u64,
    read_before: usize,
    slow_reader: bool,
    open_delay_us: u64,
    min_steps: i64,
    /// handler variant that drops its RequestContext before it waits
    drop_rqctx: bool,
}

impl Plan {
    fn victim(&self) -> bool {
        self.phase != Phase::P4
    }
    fn json(&self) -> Value {
        json!({"uid": self.uid, "uid2": self.uid2, "kind": self.kind.tag(),
               "phase": self.phase.tag(), "style": self.style.tag(), "size": self.size,
               "k": self.k, "step_us": self.step_us, "open_at": format!("{:?}", self.open_at),
               "delay_us": self.delay_us, "cut_permille": self.cut_permille,
               "read_before": self.read_before, "slow_reader": self.slow_reader,
               "handler_drops_rqctx_early": self.drop_rqctx})
    }
}

struct Sc {
    /// Some(mode): the configuration names the mode; None: the mode is whatever
    /// `ConfigDropshot::default()` says ("mode not named"), which dropshot
    /// documents to be Detached - judged with the Detached oracle
    named: Option<HandlerTaskMode>,
    /// the mode the server is actually configured with
    mode: HandlerTaskMode,
    /// detached oracle only: the final close() is called while the victims'
    /// handlers are still waiting (their clients gone); gates open afterwards
    close_early: bool,
    workers: usize,
    hogs: usize,
    plans: Vec<Plan>,
}

impl Sc {
    fn tag(&self) -> &'static str {
        match self.named {
            Some(m) => mode_tag(m),
            None => "default-mode",
        }
    }
    fn oracle_detached(&self) -> bool {
        self.named != Some(HandlerTaskMode::CancelOnDisconnect)
    }
    fn json(&self) -> Value {
        json!({"mode": self.tag(), "configured_mode": mode_tag(self.mode),
               "close_called_while_victim_handlers_wait": self.close_early,
               "workers": self.workers, "hogs": self.hogs, "requests": self.plans.len()})
    }
}

fn gen_scenario(rng: &mut Rng, quick: bool) -> Sc {
    let named = match rng.below(10) {
        0..=3 => Some(HandlerTaskMode::Detached),
        4..=7 => Some(HandlerTaskMode::CancelOnDisconnect),
        _ => None,
    };
    let mode =
        named.unwrap_or_else(|| dropshot::ConfigDropshot::default().default_handler_task_mode);
    let close_early =
        named != Some(HandlerTaskMode::CancelOnDisconnect) && rng.chance(3, 10);
    let workers = *rng.pick(&[1usize, 2, 4, 16]);
    let hogs = if rng.chance(3, 10) { 1 + rng.usize(workers.min(4)) } else { 0 };
    let sizes: &[usize] = if quick {
        &[1, 2, 3, 4, 6, 8, 12, 16, 24, 32, 48, 64, 96, 128]
    } else {
        &[1, 1, 2, 2, 3, 3, 4, 4, 5, 6, 8, 8, 10, 12, 16, 16, 24, 32, 48, 64, 96, 128]
    };
    let n = *rng.pick(sizes);
    let pv = *rng.pick(&[2u64, 5, 8]);
    let mut big_budget = if rng.chance(if quick { 35 } else { 20 }, 100) { 1 + rng.usize(3) } else { 0 };
    let mut panic_budget = if rng.chance(25, 100) { 1 + rng.usize(2) } else { 0 };
    let mut pipe_budget = if rng.chance(10, 100) { 1 } else { 0 };
    // the tagged unread-streaming-body class is rare: on the pinned tree each
    // such victim in cancel mode costs the full 10 s cancellation watchdog
    let mut stream_budget = if rng.chance(if quick { 12 } else { 6 }, 1000) { 2 } else { 0 };
    let mut plans = vec![];
    for _ in 0..n {
        let mut p = Plan {
            uid: next_uid(),
            uid2: None,
            kind: Kind::Gated,
            phase: Phase::P4,
            style: if rng.bool() { Style::Close } else { Style::Rst },
            size: *rng.pick(&[0usize, 1, 64, 1000, 5000, 70_000]),
            k: rng.below(6),
            step_us: 200 + rng.below(2500),
            open_at: *rng.pick(&[OpenAt::Pre, OpenAt::AfterEnter, OpenAt::AtRelease]),
            delay_us: if rng.bool() { 0 } else { rng.below(3000) },
            cut_permille: 1 + rng.below(998),
            read_before: 0,
            slow_reader: false,
            open_delay_us: rng.below(3000),
            min_steps: rng.range(-1, 4),
            drop_rqctx: rng.bool(),
        };
        if rng.below(10) < pv {
            // victim
            let ph = *rng.pick(&[
                Phase::P0,
                Phase::P0b,
                Phase::P1,
                Phase::P1,
                Phase::P2,
                Phase::P2,
                Phase::P2,
                Phase::P2,
                Phase::P3,
            ]);
            p.phase = ph;
            match ph {
                Phase::P0 | Phase::P1 => {
                    p.kind = if rng.chance(1, 4) { Kind::Stepping } else { Kind::Gated }
                }
                Phase::P0b => p.kind = Kind::GatedPost,
                Phase::P2 => {
                    p.kind = if rng.chance(2, 5) { Kind::Stepping } else { Kind::Gated }
                }
                Phase::P3 => {
                    if big_budget > 0 {
                        big_budget -= 1;
                        p.kind = Kind::Big;
                        p.size = BIG;
                        p.open_at = *rng.pick(&[OpenAt::Pre, OpenAt::AfterEnter]);
                        p.read_before = *rng.pick(&[0usize, 0, 1, 4096, 100_000]);
                    } else {
                        p.phase = Phase::P2;
                        p.kind = Kind::Gated;
                    }
                }
                Phase::P4 => unreachable!(),
            }
        } else {
            let r = rng.below(100);
            if panic_budget > 0 && r < 15 {
                panic_budget -= 1;
                p.kind = Kind::Panicking;
            } else if pipe_budget > 0 && r < 30 {
                pipe_budget -= 1;
                p.kind = Kind::PanicPipe;
                p.uid2 = Some(next_uid());
            } else if big_budget > 0 && r < 45 {
                big_budget -= 1;
                p.kind = Kind::Big;
                p.size = BIG;
                p.slow_reader = rng.bool();
            } else if r < 65 {
                p.kind = Kind::Stepping;
            } else {
                p.kind = Kind::Gated;
                if rng.chance(1, 4) {
                    p.uid2 = Some(next_uid());
                }
            }
        }
        if stream_budget > 0 && !matches!(p.kind, Kind::Panicking | Kind::PanicPipe | Kind::Big) {
            // first a victim at P2, then a client that stays
            p.kind = Kind::Stream;
            p.uid2 = None;
            p.size = 1000;
            p.phase = if stream_budget == 2 { Phase::P2 } else { Phase::P4 };
            stream_budget -= 1;
        }
        plans.push(p);
    }
    // a few requests per scenario that complete with an error response
    for _ in 0..1 + rng.usize(2) {
        let mut p = plans[rng.usize(plans.len())].clone();
        p.uid = next_uid();
        p.uid2 = None;
        p.phase = Phase::P4;
        p.kind = *rng.pick(&[Kind::Failing, Kind::Failing, Kind::NotFound, Kind::BadQuery]);
        p.size = 0;
        p.slow_reader = false;
        p.read_before = 0;
        p.open_at = *rng.pick(&[OpenAt::Pre, OpenAt::AfterEnter, OpenAt::AtRelease]);
        p.delay_us = rng.below(3000);
        plans.push(p);
    }
    Sc { named, mode, close_early, workers, hogs, plans }
}

#[derive(Default, Clone, Debug)]
struct COut {
    connected: bool,
    /// connect() was refused although the server had not been closed
    refused: bool,
    outcome: Option<Outcome>,
    outcome2: Option<Outcome>,
    inconclusive: Vec<String>,
}

struct Env<'a> {
    addr: SocketAddr,
    ctx: &'a C,
    log: &'a EvLog,
    victims_done: &'a AtomicUsize,
}

struct DoneGuard<'a>(&'a AtomicUsize, bool);
impl Drop for DoneGuard<'_> {
    fn drop(&mut self) {
        if self.1 {
            self.0.fetch_add(1, Ordering::SeqCst);
        }
    }
}

fn open_gate(env: &Env, uid: u64) {
    env.log.push("G_OPEN", uid, 0, "");
    env.ctx.gates.open(uid);
}

fn log_refused(env: &Env, uid: u64) {
    env.log.push("C_CONNECT_REFUSED", uid, 0, "");
}

fn encode(p: &Plan, inst: u64) -> Vec<u8> {
    let mut r = mk_req(inst, p.kind.path(), p.uid, p.size, p.k, p.step_us);
    if p.kind == Kind::GatedPost {
        r.method = "POST".into();
        r = r.body(&[b'x'; 64]);
    }
    if p.kind == Kind::Stream {
        r.method = "POST".into();
        r = r.body(&vec![b'y'; STREAM_BODY]);
    }
    drop_rqctx(r, p.drop_rqctx).encode()
}

fn client(p: &Plan, env: &Env) -> COut {
    let mut out = COut::default();
    let _dg = DoneGuard(env.victims_done, p.victim());
    if p.delay_us > 0 {
        std::thread::sleep(Duration::from_micros(p.delay_us));
    }
    let mut conn = match Conn::connect(env.addr) {
        Ok(c) => c,
        Err(e) => {
            if e.kind() == std::io::ErrorKind::ConnectionRefused {
                // the scenario's server is never closed while clients connect
                log_refused(env, p.uid);
                out.refused = true;
            } else {
                out.inconclusive.push(if is_resource_err(&e) {
                    "c16-connect-resource-error".into()
                } else {
                    format!("c16-connect-failed:{:?}", e.kind())
                });
            }
            return out;
        }
    };
    out.connected = true;
    conn.timeout = WD_READ;
    if p.phase == Phase::P3 {
        small_rcvbuf(&conn, 32 << 10);
    } else if p.slow_reader {
        small_rcvbuf(&conn, 128 << 10);
    }
    let bytes = encode(p, env.ctx.instance);
    let log = env.log;
    let uid = p.uid;
    macro_rules! send_or_bail {
        ($data:expr) => {
            if let Err(e) = conn.send($data) {
                out.inconclusive.push(format!("c16-send-failed:{:?}", e.kind()));
                return out;
            }
        };
    }
    let do_disc = |conn: Conn| {
        log.push("C_DISC_CALL", uid, 0, &format!("{}|{}", p.phase.tag(), p.style.tag()));
        disconnect(conn, p.style);
        log.push("C_DISC_RET", uid, 0, "");
    };
    match p.phase {
        Phase::P0 | Phase::P0b => {
            let head_end = vmon::client::find(&bytes, b"\r\n\r\n").unwrap() + 4;
            let cut = if p.phase == Phase::P0 {
                // strictly inside the head: the request line + headers are incomplete
                1 + (p.cut_permille as usize * (head_end - 2)) / 1000
            } else {
                // head complete, body (64 bytes announced) incomplete
                head_end + (p.cut_permille as usize * 63) / 1000
            };
            log.push("C_SEND", uid, cut as i64, "partial");
            send_or_bail!(&bytes[..cut]);
            if p.open_delay_us % 2 == 0 {
                std::thread::sleep(Duration::from_micros(p.open_delay_us / 2));
            }
            do_disc(conn);
        }
        Phase::P1 => {
            log.push("C_SEND", uid, bytes.len() as i64, "");
            send_or_bail!(&bytes);
            log.push("C_SENT_ALL", uid, 0, "");
            do_disc(conn);
        }
        Phase::P2 => {
            log.push("C_SEND", uid, bytes.len() as i64, "");
            send_or_bail!(&bytes);
            log.push("C_SENT_ALL", uid, 0, "");
            if log
                .wait_for(|e| e.kind == "H_ENTER" && e.uid == uid, WD_OBSERVE)
                .is_none()
            {
                out.inconclusive.push("c16-h-enter-not-observed".into());
            } else if p.kind == Kind::Stepping && p.min_steps >= 0 {
                let m = p.min_steps;
                let _ = log.wait_for(
                    |e| e.kind == "H_STEP" && e.uid == uid && e.n >= m,
                    WD_OBSERVE,
                );
            }
            do_disc(conn);
        }
        Phase::P3 => {
            if p.open_at == OpenAt::Pre {
                open_gate(env, uid);
            }
            log.push("C_SEND", uid, bytes.len() as i64, "");
            send_or_bail!(&bytes);
            log.push("C_SENT_ALL", uid, 0, "");
            if p.open_at != OpenAt::Pre {
                let _ = log.wait_for(|e| e.kind == "H_ENTER" && e.uid == uid, WD_OBSERVE);
                open_gate(env, uid);
            }
            if log
                .wait_for(|e| e.kind == "H_DONE" && e.uid == uid, WD_OBSERVE)
                .is_none()
            {
                out.inconclusive.push("c16-h-done-not-observed".into());
            } else if p.read_before > 0 {
                let _ = conn.read_exact_raw(p.read_before, WD_OBSERVE);
            }
            do_disc(conn);
        }
        Phase::P4 => {
            let gated = p.kind.has_gate();
            if gated && p.open_at == OpenAt::Pre {
                open_gate(env, uid);
            }
            let mut all = bytes.clone();
            if p.kind == Kind::PanicPipe {
                let u2 = p.uid2.unwrap();
                open_gate(env, u2);
                all.extend_from_slice(&mk_req(env.ctx.instance, "/gated", u2, 64, 0, 0).encode());
            }
            log.push("C_SEND", uid, all.len() as i64, "");
            send_or_bail!(&all);
            log.push("C_SENT_ALL", uid, 0, "");
            if gated && p.open_at == OpenAt::AfterEnter {
                if log
                    .wait_for(|e| e.kind == "H_ENTER" && e.uid == uid, WD_OBSERVE)
                    .is_none()
                {
                    out.inconclusive.push("c16-h-enter-not-observed".into());
                }
                std::thread::sleep(Duration::from_micros(p.open_delay_us));
                open_gate(env, uid);
            }
            let o = if p.kind.error_ending() {
                read_error_response(&mut conn, WD_READ)
            } else {
                read_and_verify(&mut conn, uid, p.size, WD_READ)
            };
            log.push("C_RESP", uid, 0, &o.tag());
            let ok = o == Outcome::Ok200;
            out.outcome = Some(o);
            if let Some(u2) = p.uid2 {
                if p.kind == Kind::PanicPipe {
                    let o2 = read_and_verify(&mut conn, u2, 64, Duration::from_secs(3));
                    log.push("C_RESP", u2, 0, &o2.tag());
                    out.outcome2 = Some(o2);
                } else if ok {
                    // keep-alive follow-up on the same connection
                    open_gate(env, u2);
                    let b2 = mk_req(env.ctx.instance, "/gated", u2, 333, 0, 0).encode();
                    log.push("C_SEND", u2, b2.len() as i64, "keepalive-2nd");
                    if conn.send(&b2).is_ok() {
                        let o2 = read_and_verify(&mut conn, u2, 333, WD_READ);
                        log.push("C_RESP", u2, 0, &o2.tag());
                        out.outcome2 = Some(o2);
                    } else {
                        out.outcome2 = Some(Outcome::Io("send".into()));
                    }
                }
            }
            drop(conn);
        }
    }
    out
}

fn health(env: &Env) -> Result<(), (bool, String)> {
    let uid = next_uid();
    env.ctx.gates.open(uid);
    let mut c = Conn::connect(env.addr).map_err(|e| {
        (
            is_resource_err(&e),
            format!("connect: {e}"),
        )
    })?;
    c.send(&mk_req(env.ctx.instance, "/gated", uid, 200, 0, 0).encode())
        .map_err(|e| (false, format!("send: {e}")))?;
    let o = read_and_verify(&mut c, uid, 200, WD_OBSERVE);
    env.log.push("C_HEALTH", uid, 0, &o.tag());
    match o {
        Outcome::Ok200 => Ok(()),
        o if o.is_harness_trouble() => Err((true, format!("{o:?}"))),
        o => Err((false, format!("{o:?}"))),
    }
}

fn close_with_watchdog(r: &mut Running, _secs: u64) -> Option<Result<(), String>> {
    // close() itself may panic (e.g. when the server task has died): that is an
    // outcome to report, not a reason for the engine to die.  Bounded from outside the
    // server's runtime (vmon::srv::CLOSE_WATCHDOG_S); no return is no verdict here.
    match r.close() {
        Some(Err(e)) if e.contains(vmon::srv::CLOSE_HUNG) => None,
        other => other,
    }
}

pub fn run_scenario(out: &mut Out, seed: u64, shard: u64, case: u64, quick: bool) {
    let mut rng = Rng::derive(seed, "c16-disconnect", shard, case);
    let sc = gen_scenario(&mut rng, quick);
    let rep = &mut out.rep;
    rep.count("scenarios", 1);
    let log = EvLog::new();
    let ctx = Ctx::new(log.clone());
    let cfg = SrvCfg { mode: sc.mode, body_max: 4 << 20, versioned: None, workers: sc.workers };
    let mut running = match vmon::srv::start(api(), ctx.clone(), &cfg) {
        Ok(r) => r,
        Err(_) => {
            rep.inconclusive("c16-server-start-failed");
            return;
        }
    };
    let hogs = Hogs::start(&running.handle(), sc.hogs);
    let victims_done = AtomicUsize::new(0);
    let env = Env { addr: running.addr, ctx: &ctx, log: &log, victims_done: &victims_done };
    let n_victims = sc.plans.iter().filter(|p| p.victim()).count();
    let detached = sc.oracle_detached();
    let m = sc.tag();
    let ident = json!({"seed": seed, "shard": shard, "case": case, "scenario": sc.json()});

    let trace = std::env::var("VMON_HIST_TRACE").is_ok();
    let t0 = Instant::now();
    let mut marks: Vec<(&str, f64)> = vec![];
    let mut couts: Vec<COut> = vec![];
    let mut stuck: Vec<u64> = vec![];
    let mut victims_wd = false;
    std::thread::scope(|s| {
        let hs: Vec<_> = sc
            .plans
            .iter()
            .map(|p| {
                let env = &env;
                std::thread::Builder::new()
                    .stack_size(256 << 10)
                    .spawn_scoped(s, move || client(p, env))
                    .expect("spawn client thread")
            })
            .collect();
        // wait until every victim has finished disconnecting
        let dl = Instant::now() + Duration::from_secs(60);
        while victims_done.load(Ordering::SeqCst) < n_victims {
            if Instant::now() > dl {
                victims_wd = true;
                break;
            }
            std::thread::sleep(Duration::from_micros(200));
        }
        marks.push(("victims_done", t0.elapsed().as_secs_f64()));
        // release: non-victims waiting for the driver; in detached mode also the
        // victims (their handlers must now run to completion without a client)
        for p in &sc.plans {
            if !p.kind.has_gate() {
                continue;
            }
            // (with close_early the victims' gates stay shut until close() has
            // been called)
            let hold = sc.close_early && matches!(p.phase, Phase::P0b | Phase::P1 | Phase::P2);
            if (!p.victim() && p.open_at == OpenAt::AtRelease)
                || (p.victim() && detached && !hold)
            {
                if !ctx.gates.is_open(p.uid) {
                    open_gate(&env, p.uid);
                }
            }
        }
        for h in hs {
            couts.push(h.join().unwrap_or_else(|_| COut {
                inconclusive: vec!["c16-client-thread-panicked".into()],
                ..Default::default()
            }));
        }
    });
    marks.push(("clients_joined", t0.elapsed().as_secs_f64()));
    if victims_wd {
        rep.inconclusive("c16-victim-phase-watchdog");
    }

    // cancel mode: victims whose handler was observably running when the client
    // began to disconnect (H_ENTER.seq < C_DISC_CALL.seq) and whose request was
    // complete.  Their gate stays shut; H_DROP(0) must appear.
    let mut strict: Vec<u64> = vec![];
    if !detached {
        let idx = index(&log.snapshot());
        for p in &sc.plans {
            if !matches!(p.phase, Phase::P1 | Phase::P2) {
                continue;
            }
            if let Some(h) = idx.get(&p.uid) {
                if let (Some(e), Some(d)) = (h.enter.first(), h.disc_call) {
                    if *e < d {
                        strict.push(p.uid);
                    }
                }
            }
        }
        let dl = Instant::now() + WD_CANCEL;
        for uid in &strict {
            let left = dl.saturating_duration_since(Instant::now());
            let u = *uid;
            if log
                .wait_for(
                    |e| e.uid == u && ((e.kind == "H_DROP" && e.n == 0) || e.kind == "H_DONE"),
                    left,
                )
                .is_none()
            {
                stuck.push(u);
            }
        }
    }
    marks.push(("strict_checked", t0.elapsed().as_secs_f64()));
    let open_rest = |env: &Env| {
        for p in &sc.plans {
            if p.kind.has_gate() && !ctx.gates.is_open(p.uid) {
                open_gate(env, p.uid);
            }
        }
    };
    let (quiescent, health_res, closed);
    if sc.close_early {
        // detached oracle: close() is called while handlers whose clients have
        // left are still waiting; their gates are opened only after the call,
        // from this thread, independently of close() returning
        health_res = health(&env);
        drop(hogs);
        let lg = log.clone();
        if let Some(server) = running.server.take() {
            running.handle().spawn(async move {
                use futures::FutureExt;
                lg.push("S_CLOSE_CALL", 0, 0, "");
                match std::panic::AssertUnwindSafe(server.close()).catch_unwind().await {
                    Ok(r) => lg.push("S_CLOSE_RET", 0, r.is_ok() as i64, &format!("{r:?}")),
                    Err(_) => lg.push("S_CLOSE_RET", 0, -1, "close() panicked"),
                };
            });
        }
        let _ = log.wait_for(|e| e.kind == "S_CLOSE_CALL", WD_OBSERVE);
        std::thread::sleep(Duration::from_micros(rng.below(6000)));
        open_rest(&env);
        closed = log
            .wait_for(|e| e.kind == "S_CLOSE_RET", Duration::from_secs(20))
            .map(|e| if e.n >= 0 { Ok::<(), String>(()) } else { Err(e.s) });
        quiescent = wait_handlers_ended(&log, Duration::from_secs(15));
    } else {
        // open every remaining gate and let the server come to rest
        open_rest(&env);
        quiescent = wait_handlers_ended(&log, Duration::from_secs(15));
        marks.push(("quiescent", t0.elapsed().as_secs_f64()));
        health_res = health(&env);
        marks.push(("health", t0.elapsed().as_secs_f64()));
        drop(hogs);
        closed = close_with_watchdog(&mut running, 20);
    }
    marks.push(("closed", t0.elapsed().as_secs_f64()));
    let events = log.snapshot();
    drop(running);
    if trace {
        eprintln!("case {case} {} n={} ev={} {:?}", sc.json(), sc.plans.len(), events.len(), marks);
    }

    // ------------------------------------------------------------- oracle
    let idx = index(&events);
    count_kinds(rep, &events);
    out.maxc = out.maxc.max(max_concurrency(&events));
    let had_panic = sc.plans.iter().any(|p| matches!(p.kind, Kind::Panicking | Kind::PanicPipe));
    match &closed {
        None => rep.inconclusive("c16-final-close-watchdog"),
        Some(Ok(())) => rep.count("final_close_ok", 1),
        Some(Err(e)) if e.contains("panicked") => rep.violate(
            if had_panic { "C16:panic:close-panicked-afterwards" } else { "C16:close-panicked" },
            json!({"ident": ident, "close": e,
                   "what": "HttpServer::close() panicked at the end of the scenario: the server task had died",
                   "history": history_json(&events, 300)}),
        ),
        Some(Err(_)) => rep.count("final_close_err", 1),
    }
    match &health_res {
        Ok(()) => rep.count("health_probes_ok", 1),
        Err((true, _)) => rep.inconclusive("c16-health-probe-harness-trouble"),
        Err((false, why)) => {
            let sig = if had_panic {
                "C16:panic:server-stopped-serving"
            } else {
                "C16:server-stopped-serving"
            };
            rep.violate(
                sig,
                json!({"ident": ident, "health_probe": why, "history": history_json(&events, 300)}),
            );
        }
    }
    let empty = UidHist::default();
    let close_call = events.iter().find(|e| e.kind == "S_CLOSE_CALL").map(|e| e.seq);
    let close_ret = events.iter().find(|e| e.kind == "S_CLOSE_RET").map(|e| e.seq);
    for (p, co) in sc.plans.iter().zip(couts.iter()) {
        for r in &co.inconclusive {
            rep.inconclusive(r);
        }
        if co.refused {
            rep.violate(
                if had_panic {
                    "C16:panic:connection-refused-by-running-server"
                } else {
                    "C16:connection-refused-by-running-server"
                },
                json!({"ident": ident, "plan": p.json(),
                       "what": "connect() to the server's address was refused although the server had not been closed: it has stopped accepting connections",
                       "history": history_json(&events, 300)}),
            );
        }
        if !co.connected {
            continue;
        }
        let h = idx.get(&p.uid).unwrap_or(&empty);
        let wit = |what: &str| {
            json!({"ident": ident, "what": what, "plan": p.json(),
                   "client_outcome": co.outcome.as_ref().map(|o| o.json()),
                   "uid_history": h.json()})
        };
        let entered = !h.enter.is_empty();
        if h.enter.len() > 1 {
            rep.violate("C16:handler-entered-twice", wit("more than one H_ENTER for one request"));
        }
        if h.done.len() > 1 {
            rep.violate("C16:handler-completed-twice", wit("more than one H_DONE for one request"));
        }
        if !h.done.is_empty() && !h.drop0.is_empty() {
            rep.violate(
                format!("C16:{m}:handler-ended-both-ways"),
                wit("H_DONE and H_DROP(completed=0) for one request"),
            );
        }
        if let Some(x) = h.drop0.first() {
            if h.steps.iter().any(|s| s > x) || h.done.iter().any(|s| s > x) {
                rep.violate(
                    format!("C16:{m}:progress-after-cancel"),
                    wit("H_STEP/H_DONE after H_DROP(completed=0)"),
                );
            }
            if detached {
                rep.violate(
                    format!(
                        "C16:{m}:handler-cancelled@{}{}",
                        p.phase.tag(),
                        if p.kind == Kind::Stream { ":unread-streaming-body" } else { "" }
                    ),
                    wit("detached handler dropped before completion"),
                );
            }
        }
        let mut verdict = "";
        if stuck.contains(&p.uid) {
            if !h.done.is_empty() {
                verdict = "ran-on";
                rep.violate(
                    format!(
                        "C16:cancel:victim-ran-to-completion@{}{}",
                        p.phase.tag(),
                        if p.kind == Kind::Stream { ":unread-streaming-body" } else { "" }
                    ),
                    wit("client sent its complete request, handler observed running, client \
                         disconnected; no cancellation within the 10 s watchdog; after the gate \
                         was opened the handler ran to completion"),
                );
            } else if !h.drop0.is_empty() {
                rep.inconclusive(if p.kind == Kind::Stream {
                    "c16-cancelled-later-than-watchdog:unread-streaming-body"
                } else {
                    "c16-cancelled-later-than-watchdog"
                });
            } else {
                rep.inconclusive("c16-victim-neither-cancelled-nor-done");
            }
        } else if strict.contains(&p.uid) {
            rep.count("strict_victims_cancelled", 1);
        }
        if entered && h.ending().is_none() {
            rep.inconclusive("c16-no-ending-at-quiescence");
        }
        // detached promise at shutdown: a started handler runs to completion, so
        // close() may not report the server shut down while it is still running
        // (afterwards the application exits and the runtime kills it)
        if let (true, Some(ret)) = (sc.close_early && entered, close_ret) {
            if h.ending().map(|e| e < ret).unwrap_or(false) {
                rep.count("handler_ended_before_final_close_returned", 1);
            } else {
                rep.violate(
                    format!(
                        "C16:{m}:close-returned-while-detached-handler-running@{}",
                        p.phase.tag()
                    ),
                    wit("close() returned (S_CLOSE_RET) although a started handler of a \
                         detached-mode server had not completed; its client had disconnected"),
                );
            }
        }
        if detached && entered && p.victim() && h.done.len() == 1 {
            rep.count("detached_victims_completed", 1);
        }
        if !detached && p.phase == Phase::P1 && entered && !strict.contains(&p.uid) {
            // handler started only after the client had begun to leave: the
            // text does not bind this case; counted
            rep.count(
                if h.drop0.is_empty() { "p1_late_enter_completed" } else { "p1_late_enter_cancelled" },
                1,
            );
        }
        if matches!(p.phase, Phase::P0) && entered {
            rep.count("p0_half_head_entered", 1);
        }
        // clients that stayed
        let otag = co.outcome.as_ref().map(|o| o.tag()).unwrap_or_default();
        if p.phase == Phase::P4 {
            match (p.kind, &co.outcome) {
                (Kind::Panicking | Kind::PanicPipe, Some(o)) => {
                    if *o == Outcome::Ok200 || matches!(o, Outcome::Status(s) if (200..300).contains(s)) {
                        rep.violate("C16:panic:panicking-request-got-2xx", wit("2xx for a panicking handler"));
                    }
                    rep.count(&format!("panic_client_saw_{}", o.tag()), 1);
                    if p.kind == Kind::PanicPipe {
                        let h2 = idx.get(&p.uid2.unwrap()).unwrap_or(&empty);
                        let o2 = co.outcome2.as_ref().map(|o| o.tag()).unwrap_or_default();
                        rep.count(
                            &format!(
                                "h1_pipelined_behind_panic|{m}|entered={}|client_saw={o2}",
                                !h2.enter.is_empty()
                            ),
                            1,
                        );
                    }
                }
                (k, Some(o)) if k.error_ending() => {
                    // the request completes with an error response, delivered to
                    // the client that stayed (which 4xx: not constrained here)
                    match o {
                        Outcome::Status(s) if (400..500).contains(s) => {
                            rep.count("error_responses_delivered", 1)
                        }
                        o if o.is_harness_trouble() => {
                            rep.inconclusive(&format!("c16-nonvictim-{}", o.tag()))
                        }
                        o => rep.violate(
                            format!("C16:{m}:error-response-not-delivered-{}", o.tag()),
                            wit("a request that ends with an error response: its client stayed connected but did not receive a complete 4xx response"),
                        ),
                    }
                }
                (_, Some(o)) => {
                    if o.is_harness_trouble() {
                        rep.inconclusive(&format!("c16-nonvictim-{}", o.tag()));
                    } else if *o != Outcome::Ok200 {
                        rep.violate(
                            format!("C16:{m}:nonvictim-response-{}", o.tag()),
                            wit("a client that stayed connected did not get its complete correct response"),
                        );
                    } else {
                        rep.count("nonvictim_responses_ok", 1);
                    }
                    if let (Some(_), Some(o2)) = (p.uid2, &co.outcome2) {
                        if o2.is_harness_trouble() {
                            rep.inconclusive(&format!("c16-nonvictim-{}", o2.tag()));
                        } else if *o2 != Outcome::Ok200 {
                            rep.violate(
                                format!("C16:{m}:nonvictim-response-{}", o2.tag()),
                                wit("keep-alive follow-up request of a client that stayed was not answered correctly"),
                            );
                        } else {
                            rep.count("nonvictim_responses_ok", 1);
                        }
                    }
                }
                (_, None) => {}
            }
        }
        let mut extra: Vec<(&'static str, u64)> = vec![];
        if let (true, Some(c)) = (sc.close_early && entered, close_call) {
            extra.push(("C", c));
            if let Some(z) = close_ret {
                extra.push(("Z", z));
            }
        }
        let ord = ordering(h, &extra);
        out.inter.insert(format!("{m}|{}|{}|{}", p.phase.tag(), p.style.tag(), strip_client(&ord)));
        rep.eval(format!(
            "{m}|{}{}|{}|{}|{ord}|{otag}{verdict}",
            p.kind.tag(),
            if p.drop_rqctx { "~rqctx-dropped-early" } else { "" },
            p.phase.tag(),
            if p.victim() { p.style.tag() } else { "-" },
        ));
        if rep.want_sample() && (p.victim() || rep.samples.len() < 4) {
            rep.sample(json!({"ident": ident, "plan": p.json(), "ordering": ord,
                              "client_outcome": otag, "uid_history": h.json()}));
        }
    }
    if !quiescent {
        rep.inconclusive("c16-quiescence-watchdog");
    }
    // cross-request interleavings: victim (disconnect, ending) against a
    // non-victim's (enter, done)
    let vs: Vec<&Plan> = sc.plans.iter().filter(|p| p.victim()).take(8).collect();
    let ws: Vec<&Plan> = sc.plans.iter().filter(|p| !p.victim()).take(8).collect();
    for v in &vs {
        let Some(hv) = idx.get(&v.uid) else { continue };
        let (Some(vd), Some(ve)) = (hv.disc_call, hv.ending()) else { continue };
        let vend = if hv.drop0.first() == Some(&ve) { "vX" } else { "vF" };
        for w in &ws {
            let Some(hw) = idx.get(&w.uid) else { continue };
            let (Some(we), Some(wf)) = (hw.enter.first(), hw.done.first()) else { continue };
            let mut t = vec![(vd, "vd"), (ve, vend), (*we, "wE"), (*wf, "wF")];
            t.sort();
            let s: Vec<&str> = t.iter().map(|x| x.1).collect();
            out.inter.insert(format!("pair|{m}|{}", s.join("<")));
        }
    }
}

/// ordering restricted to (ENTER, steps, DISCONNECT, DONE/DROP)
fn strip_client(ord: &str) -> String {
    ord.chars().filter(|c| "EsdDFXxPCZ".contains(*c)).collect()
}

pub fn run_shard(seed: u64, shard: u64, nshards: u64, total: u64, quick: bool) -> Out {
    let mut out = Out::new(Report::new("C16", "c16-disconnect", RULE));
    let mut case = shard;
    while case < total {
        // a panic of the harness itself on this thread (thread spawn failure,
        // ...) makes this scenario inconclusive; it must not kill the engine
        let r = vmon::panics::catch_quiet(std::panic::AssertUnwindSafe(|| {
            run_scenario(&mut out, seed, shard, case, quick)
        }));
        if r.is_err() {
            out.rep.inconclusive("c16-scenario-aborted-by-harness-panic");
        }
        case += nshards;
    }
    out
}

pub fn finish(out: &mut Out) {
    let mut by: BTreeMap<String, u64> = BTreeMap::new();
    let mut pairs = 0u64;
    for s in &out.inter {
        if s.starts_with("pair|") {
            pairs += 1;
            continue;
        }
        let key: Vec<&str> = s.split('|').take(3).collect();
        *by.entry(key.join("|")).or_insert(0) += 1;
    }
    out.rep.extra.insert(
        "distinct_victim_vs_nonvictim_orderings".into(),
        json!(pairs),
    );
    out.rep.extra.insert("distinct_interleavings".into(), json!(out.inter.len()));
    out.rep.extra.insert("distinct_orderings_by_mode_phase_style".into(), json!(by));
    out.rep.extra.insert("max_observed_concurrency".into(), json!(out.maxc));
    out.rep.extra.insert(
        "interleavings_sample".into(),
        json!(out.inter.iter().take(60).collect::<Vec<_>>()),
    );
}
