//! C16 over HTTP/2: streams instead of connections.  One h2 connection carries
//! 1-5 requests to gated handlers; once every handler is observably running the
//! client either drops the whole connection or resets some of the streams
//! (RST_STREAM, several reasons) while the other streams stay.  The history rules
//! are those of c16.rs: detached handlers complete exactly once whatever the client
//! does; in cancel mode a handler whose stream/connection went away while it was
//! waiting is dropped (and never completes afterwards); streams that stay get
//! their complete answers; the server keeps serving.

use crate::common::*;
use serde_json::json;
use std::time::{Duration, Instant};
use vmon::client::Conn;
use vmon::evlog::{next_uid, EvLog};
use vmon::report::Report;
use vmon::rng::Rng;
use vmon::srv::{Ctx, SrvCfg};

const WD: Duration = Duration::from_secs(30);

struct Stream {
    uid: u64,
    size: usize,
    victim: bool,
    path: &'static str,
}

pub fn run_case(rep: &mut Report, seed: u64, shard: u64, case: u64) {
    let mut rng = Rng::derive(seed, "c16-h2", shard, case);
    let detached = rng.bool();
    let mode = if detached { dropshot::HandlerTaskMode::Detached } else { dropshot::HandlerTaskMode::CancelOnDisconnect };
    let m = mode_tag(mode);
    let log = EvLog::new();
    let ctx = Ctx::new(log.clone());
    let cfg = SrvCfg { mode, body_max: 1 << 20, versioned: None, workers: 1 + rng.usize(4) };
    let mut running = match vmon::srv::start(api(), ctx.clone(), &cfg) {
        Ok(r) => r,
        Err(_) => {
            rep.inconclusive("c16-h2-server-start-failed");
            return;
        }
    };
    let addr = running.addr;
    let n = 1 + rng.usize(5);
    let fault = *rng.pick(&["drop-connection", "rst-cancel", "rst-internal-error", "rst-no-error", "rst-refused", "no-fault"]);
    let mut streams: Vec<Stream> = (0..n)
        .map(|_| Stream {
            uid: next_uid(),
            size: *rng.pick(&[0usize, 64, 5000, 70_000, 300_000]),
            victim: fault != "no-fault" && (fault == "drop-connection" || rng.bool()),
            path: if rng.chance(1, 3) { "/stepping" } else { "/gated" },
        })
        .collect();
    if fault != "no-fault" && !streams.iter().any(|s| s.victim) {
        streams[0].victim = true;
    }
    let gap_us = rng.below(5000);
    let ident = json!({"seed": seed, "shard": shard, "case": case, "mode": m, "fault": fault, "transport": "h2 (prior knowledge)",
        "streams": streams.iter().map(|s| json!({"uid": s.uid, "path": s.path, "size": s.size, "victim": s.victim})).collect::<Vec<_>>()});
    rep.count("scenarios", 1);
    let rt = match tokio::runtime::Builder::new_current_thread().enable_all().build() {
        Ok(r) => r,
        Err(_) => {
            rep.inconclusive("c16-h2-client-runtime");
            return;
        }
    };
    let inst = ctx.instance;
    // ---- client side, up to and including the fault; answers of the stayers are collected
    let res: Result<Vec<(u64, Result<(u16, Vec<u8>), String>)>, String> = rt.block_on(async {
        let tcp = tokio::time::timeout(Duration::from_secs(10), tokio::net::TcpStream::connect(addr))
            .await
            .map_err(|_| "connect timeout".to_string())?
            .map_err(|e| format!("connect: {e}"))?;
        // windows larger than everything a scenario sends back: reading one answer can
        // never be held up by another answer nobody reads yet
        let mut hb = h2::client::Builder::new();
        hb.initial_window_size(8 << 20).initial_connection_window_size(64 << 20);
        let (client, conn) = tokio::time::timeout(Duration::from_secs(10), hb.handshake::<_, bytes::Bytes>(tcp))
            .await
            .map_err(|_| "handshake timeout".to_string())?
            .map_err(|e| format!("handshake: {e}"))?;
        let conn_task = tokio::spawn(async move {
            let _ = conn.await;
        });
        let mut client = client.ready().await.map_err(|e| format!("ready: {e}"))?;
        let mut open = vec![];
        for s in &streams {
            let req = http::Request::builder()
                .method("GET")
                .uri(format!("http://{addr}{}", s.path))
                .header("x-vmon-uid", s.uid.to_string())
                .header("x-vmon-instance", inst.to_string())
                .header("x-vmon-size", s.size.to_string())
                .header("x-vmon-k", "3")
                .header("x-vmon-step-us", "300")
                .body(())
                .map_err(|e| e.to_string())?;
            let (resp, send) = client.send_request(req, true).map_err(|e| format!("send_request: {e}"))?;
            open.push((s.uid, s.victim, resp, send));
            client = client.ready().await.map_err(|e| format!("ready: {e}"))?;
        }
        // every handler observably running
        let lg = log.clone();
        let uids: Vec<u64> = streams.iter().map(|s| s.uid).collect();
        let entered = tokio::task::spawn_blocking(move || {
            let dl = Instant::now() + WD;
            uids.iter().all(|u| {
                let u = *u;
                lg.wait_for(|e| e.kind == "H_ENTER" && e.uid == u, dl.saturating_duration_since(Instant::now())).is_some()
            })
        })
        .await
        .unwrap_or(false);
        if !entered {
            return Err("handlers not entered within the watchdog".into());
        }
        tokio::time::sleep(Duration::from_micros(gap_us)).await;
        for s in streams.iter().filter(|s| s.victim) {
            log.push("C_DISC_CALL", s.uid, 0, fault);
        }
        let mut stay = vec![];
        if fault == "drop-connection" {
            drop(open);
            drop(client);
            conn_task.abort();
        } else {
            let reason = match fault {
                "rst-cancel" => h2::Reason::CANCEL,
                "rst-internal-error" => h2::Reason::INTERNAL_ERROR,
                "rst-no-error" => h2::Reason::NO_ERROR,
                _ => h2::Reason::REFUSED_STREAM,
            };
            for (uid, victim, resp, mut send) in open {
                if victim {
                    send.send_reset(reason);
                    drop(resp);
                } else {
                    stay.push((uid, resp));
                }
            }
            // let the frames leave
            tokio::time::sleep(Duration::from_millis(5)).await;
        }
        for s in streams.iter().filter(|s| s.victim) {
            log.push("C_DISC_RET", s.uid, 0, "");
        }
        // detached: all gates open now; cancel: only the stayers' (victims' gates stay shut
        // until their handlers have been seen to end, or the watchdog)
        for s in &streams {
            if detached || !s.victim {
                ctx.gates.open(s.uid);
                log.push("G_OPEN", s.uid, 0, "");
            }
        }
        let answers = futures::future::join_all(stay.into_iter().map(|(uid, resp)| async move {
            let stage = std::cell::Cell::new(0usize);
            let r = tokio::time::timeout(WD, async {
                let resp = resp.await.map_err(|e| format!("response: {e}"))?;
                stage.set(1);
                let status = resp.status().as_u16();
                let mut body = resp.into_body();
                let mut got = vec![];
                while let Some(chunk) = body.data().await {
                    let chunk = chunk.map_err(|e| format!("body: {e}"))?;
                    let _ = body.flow_control().release_capacity(chunk.len());
                    got.extend_from_slice(&chunk);
                    stage.set(1 + got.len());
                }
                Ok::<_, String>((status, got))
            })
            .await
            .unwrap_or_else(|_| Err(format!("watchdog stage={}", stage.get())));
            (uid, r)
        }))
        .await;
        if fault != "drop-connection" {
            conn_task.abort();
        }
        Ok(answers)
    });
    // the client runtime goes away with every task and socket it still owns
    drop(rt);
    let answers = match res {
        Ok(a) => a,
        Err(e) => {
            rep.inconclusive(&format!("c16-h2-client: {}", e.chars().take(40).collect::<String>()));
            for s in &streams {
                ctx.gates.open(s.uid);
            }
            let _ = close_wd(&mut running, 20);
            return;
        }
    };
    // ---- cancel mode: the victims' handlers must be dropped while their gates are shut
    let mut stuck = vec![];
    if !detached {
        let dl = Instant::now() + WD;
        for s in streams.iter().filter(|s| s.victim) {
            let u = s.uid;
            if log
                .wait_for(|e| e.uid == u && ((e.kind == "H_DROP" && e.n == 0) || e.kind == "H_DONE"), dl.saturating_duration_since(Instant::now()))
                .is_none()
            {
                stuck.push(u);
            }
        }
        for s in streams.iter().filter(|s| s.victim) {
            ctx.gates.open(s.uid);
            log.push("G_OPEN", s.uid, 1, "after cancel watchdog");
        }
    }
    let quiescent = wait_handlers_ended(&log, Duration::from_secs(20));
    // ---- the server still serves
    let hu = next_uid();
    ctx.gates.open(hu);
    let health = Conn::connect(addr).map_err(|e| format!("connect: {e}")).and_then(|mut c| {
        c.send(&mk_req(inst, "/gated", hu, 200, 0, 0).encode()).map_err(|e| format!("send: {e}"))?;
        Ok(read_and_verify(&mut c, hu, 200, WD))
    });
    let closed = close_wd(&mut running, 30);
    let events = log.snapshot();
    drop(running);
    // ---------------------------------------------------------------- oracle
    let idx = index(&events);
    let empty = UidHist::default();
    let nvict = streams.iter().filter(|s| s.victim).count();
    rep.eval(format!("h2|{m}|{fault}|streams{n}|victims{}", nvict.min(3)));
    if !quiescent {
        rep.inconclusive("c16-h2-handlers-still-running-at-watchdog");
    }
    match &health {
        Ok(Outcome::Ok200) => rep.count("health_probes_ok", 1),
        Ok(o) if o.is_harness_trouble() => rep.inconclusive("c16-h2-health-probe-harness-trouble"),
        Ok(o) => rep.violate("C16:h2:server-stopped-serving", json!({"ident": ident, "health_probe": o.json(), "history": history_json(&events, 200)})),
        Err(_) => rep.inconclusive("c16-h2-health-probe-harness-trouble"),
    }
    match &closed {
        None => rep.inconclusive("c16-h2-final-close-watchdog"),
        Some(Err(e)) if e.contains("panicked") => rep.violate("C16:h2:close-panicked", json!({"ident": ident, "close": e})),
        _ => {}
    }
    for s in &streams {
        let h = idx.get(&s.uid).unwrap_or(&empty);
        let wit = |what: &str| json!({"ident": ident, "what": what, "uid": s.uid, "victim": s.victim, "uid_history": h.json()});
        if h.enter.len() > 1 {
            rep.violate("C16:h2:handler-entered-twice", wit("more than one H_ENTER for one stream"));
        }
        if h.done.len() > 1 {
            rep.violate("C16:h2:handler-completed-twice", wit("more than one H_DONE for one stream"));
        }
        if !h.done.is_empty() && !h.drop0.is_empty() {
            rep.violate(format!("C16:h2:{m}:handler-ended-both-ways"), wit("H_DONE and H_DROP(completed=0) for one stream"));
        }
        if let Some(x) = h.drop0.first() {
            if h.steps.iter().any(|t| t > x) || h.done.iter().any(|t| t > x) {
                rep.violate(format!("C16:h2:{m}:progress-after-cancel"), wit("H_STEP/H_DONE after H_DROP(completed=0)"));
            }
        }
        if detached {
            if !h.drop0.is_empty() {
                rep.violate(format!("C16:h2:detached:handler-cancelled@{fault}"), wit("detached handler dropped before completion"));
            } else if quiescent && h.done.len() != 1 {
                rep.violate(format!("C16:h2:detached:handler-did-not-complete@{fault}"), wit("detached handler entered but no H_DONE"));
            } else {
                rep.count("detached_handlers_completed_exactly_once", 1);
            }
        } else if s.victim {
            if stuck.contains(&s.uid) {
                if !h.done.is_empty() {
                    rep.violate(
                        format!("C16:h2:cancel:victim-ran-to-completion@{fault}"),
                        wit("handler still waiting 30 s after its stream/connection went away, then completed when its gate was opened"),
                    );
                } else {
                    rep.inconclusive("c16-h2-victim-neither-dropped-nor-done");
                }
            } else if !h.drop0.is_empty() {
                rep.count("cancel_mode_victims_dropped", 1);
            }
        }
        if !s.victim {
            match answers.iter().find(|(u, _)| *u == s.uid).map(|(_, r)| r) {
                Some(Ok((200, body))) if *body == payload(s.uid, s.size) => rep.count("staying_streams_answered_completely", 1),
                Some(Ok((st, body))) => rep.violate(
                    format!("C16:h2:{m}:staying-stream-wrong-answer"),
                    wit(&format!("status {st}, {} body bytes (expected 200 and {})", body.len(), s.size)),
                ),
                Some(Err(e)) if e.starts_with("watchdog") => rep.inconclusive(&format!("c16-h2-staying-stream-{e} {m} {fault} size{} {} done={}", s.size, s.path, h.done.len())),
                Some(Err(e)) => rep.violate(format!("C16:h2:{m}:staying-stream-not-answered"), wit(&format!("client error: {e}"))),
                None => {}
            }
        }
    }
}

fn close_wd(r: &mut vmon::srv::Running, _secs: u64) -> Option<Result<(), String>> {
    // bounded from outside the server's runtime (vmon::srv::CLOSE_WATCHDOG_S); a close()
    // that does not return is no verdict here
    match r.close() {
        Some(Err(e)) if e.contains(vmon::srv::CLOSE_HUNG) => None,
        other => other,
    }
}

pub fn run_shard(seed: u64, shard: u64, nshards: u64, total: u64) -> Out {
    let rep = Report::new(
        "C16",
        "E3-disconnect-history-h2",
        "HTTP/2 (prior knowledge, h2 crate client placing single frames): per scenario one connection with 1-5 streams to gated/stepping \
         handlers (both task modes, 1-4 workers); once every handler has logged H_ENTER the client drops the connection or sends RST_STREAM \
         (CANCEL / INTERNAL_ERROR / NO_ERROR / REFUSED_STREAM) on a subset while the other streams stay; gates open after the fault (cancel \
         mode: victims' gates only after their handlers were seen to end, or a 30 s watchdog).  History rules: one H_ENTER and at most one \
         H_DONE per stream, never both H_DONE and H_DROP(0), no progress after H_DROP(0); detached => exactly one H_DONE and no H_DROP(0); \
         cancel => a victim whose handler is still waiting at the watchdog and then completes is a violation; staying streams get 200 and \
         their exact payload; a fresh HTTP/1.1 request is served afterwards; class = (mode, fault, #streams, #victims)",
    );
    let mut out = Out::new(rep);
    let mut case = shard;
    while case < total {
        run_case(&mut out.rep, seed, shard, case);
        case += nshards;
    }
    out
}
