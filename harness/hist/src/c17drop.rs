//! C17 when shutdown is requested by DROPPING the server handle (no close() call):
//! dropshot's handle signals the server task on drop.  Waiters obtained earlier with
//! wait_for_shutdown() are the only observers.  Same rules as for close(): started
//! requests are answered completely, the waiters are released only after every
//! started handler has ended, all with the same result, and afterwards the port no
//! longer serves.

use crate::common::*;
use serde_json::json;
use std::time::{Duration, Instant};
use vmon::client::Conn;
use vmon::evlog::{next_uid, EvLog};
use vmon::report::Report;
use vmon::rng::Rng;
use vmon::srv::{Ctx, SrvCfg};

const WD: Duration = Duration::from_secs(30);

/// returns true when the shard should stop (a verdict that costs 40 s per scenario exists)
pub fn run_case(rep: &mut Report, seed: u64, shard: u64, case: u64) -> bool {
    let mut rng = Rng::derive(seed, "c17-drop", shard, case);
    let detached = rng.bool();
    let mode = if detached { dropshot::HandlerTaskMode::Detached } else { dropshot::HandlerTaskMode::CancelOnDisconnect };
    let m = mode_tag(mode);
    let log = EvLog::new();
    let ctx = Ctx::new(log.clone());
    let cfg = SrvCfg { mode, body_max: 1 << 20, versioned: None, workers: 1 + rng.usize(4) };
    let mut running = match vmon::srv::start(api(), ctx.clone(), &cfg) {
        Ok(r) => r,
        Err(_) => {
            rep.inconclusive("c17-drop-server-start-failed");
            return false;
        }
    };
    let addr = running.addr;
    let inst = ctx.instance;
    let a = rng.usize(4);
    let idle = rng.usize(3);
    let waiters = 1 + rng.usize(4);
    let late_connection = rng.chance(1, 2);
    let gap_us = rng.below(8000);
    let inflight: Vec<(u64, usize)> = (0..a).map(|_| (next_uid(), *rng.pick(&[0usize, 64, 5000, 70_000, 300_000]))).collect();
    let ident = json!({"seed": seed, "shard": shard, "case": case, "mode": m, "shutdown_by": "dropping the HttpServer handle",
        "in_flight": inflight.iter().map(|(u, s)| json!({"uid": u, "size": s})).collect::<Vec<_>>(),
        "idle_keep_alive_connections": idle, "waiters": waiters, "connection_attempt_after_drop": late_connection});
    rep.count("scenarios", 1);
    // waiters first
    let server = running.server.take().expect("server");
    for w in 0..waiters {
        let fut = server.wait_for_shutdown();
        let lg = log.clone();
        running.handle().spawn(async move {
            let r = fut.await;
            lg.push("W_RET", w as u64, r.is_ok() as i64, &format!("{r:?}"));
        });
    }
    // clients: in-flight requests (handlers entered) and idle keep-alive connections
    let mut conns: Vec<(u64, usize, Conn)> = vec![];
    for (uid, size) in &inflight {
        match Conn::connect(addr) {
            Ok(mut c) => {
                if c.send(&mk_req(inst, "/gated", *uid, *size, 0, 0).encode()).is_ok() {
                    conns.push((*uid, *size, c));
                }
            }
            Err(_) => rep.inconclusive("c17-drop-connect"),
        }
    }
    let mut idles = vec![];
    for _ in 0..idle {
        let hu = next_uid();
        ctx.gates.open(hu);
        if let Ok(mut c) = Conn::connect(addr) {
            if c.send(&mk_req(inst, "/gated", hu, 40, 0, 0).encode()).is_ok() && matches!(read_and_verify(&mut c, hu, 40, WD), Outcome::Ok200) {
                idles.push(c);
            }
        }
    }
    let dl = Instant::now() + WD;
    let entered = conns.iter().all(|(u, _, _)| {
        let u = *u;
        log.wait_for(|e| e.kind == "H_ENTER" && e.uid == u, dl.saturating_duration_since(Instant::now())).is_some()
    });
    if !entered {
        rep.inconclusive("c17-drop-handlers-not-entered");
        for (u, _) in &inflight {
            ctx.gates.open(*u);
        }
        drop(server);
        return false;
    }
    // ---- the shutdown request: the handle is dropped
    log.push("S_DROP", 0, 0, "");
    drop(server);
    std::thread::sleep(Duration::from_micros(gap_us));
    if late_connection {
        // somebody connects while shutdown is (or should be) under way; whether this
        // connection is accepted is not judged
        let _ = Conn::connect(addr);
    }
    for (u, _) in &inflight {
        ctx.gates.open(*u);
        log.push("G_OPEN", *u, 0, "");
    }
    let mut answers = vec![];
    for (uid, size, c) in conns.iter_mut() {
        answers.push((*uid, *size, read_and_verify(c, *uid, *size, WD)));
    }
    // every waiter released?  (bounded: handlers done, then the clients go away too)
    let released = |log: &EvLog| log.snapshot().iter().filter(|e| e.kind == "W_RET").count();
    let quiescent = wait_handlers_ended(&log, Duration::from_secs(20));
    let dl = Instant::now() + WD;
    while released(&log) < waiters && Instant::now() < dl {
        std::thread::sleep(Duration::from_millis(2));
    }
    let released_with_clients = released(&log);
    drop(conns);
    drop(idles);
    let dl = Instant::now() + Duration::from_secs(10);
    while released(&log) < waiters && Instant::now() < dl {
        std::thread::sleep(Duration::from_millis(2));
    }
    let released_finally = released(&log);
    // the port afterwards
    let mut served_after = false;
    if released_finally == waiters {
        let pu = next_uid();
        ctx.gates.open(pu);
        if let Ok(mut c) = Conn::connect(addr) {
            if c.send(&mk_req(inst, "/gated", pu, 10, 0, 0).encode()).is_ok() {
                served_after = matches!(read_and_verify(&mut c, pu, 10, Duration::from_secs(5)), Outcome::Ok200);
            }
        }
    }
    let events = log.snapshot();
    drop(running);
    // ---------------------------------------------------------------- oracle
    let idx = index(&events);
    let empty = UidHist::default();
    rep.eval(format!("drop|{m}|inflight{a}|idle{idle}|waiters{waiters}|late{}", late_connection as u8));
    if !quiescent {
        rep.inconclusive("c17-drop-handlers-still-running-at-watchdog");
        return false;
    }
    if released_finally < waiters {
        rep.violate(
            "C17:drop:waiters-not-released",
            json!({"ident": ident, "released": released_finally, "waiters": waiters,
                   "what": "the server handle was dropped, every started handler has ended, every client has disconnected, and 40 s later wait_for_shutdown() waiters are still pending",
                   "history": history_json(&events, 200)}),
        );
        return true;
    }
    if released_with_clients < waiters {
        // released only once the idle / finished clients had gone: same rule as for close()
        rep.violate(
            "C17:drop:shutdown-held-up-by-connections-with-nothing-in-flight",
            json!({"ident": ident, "released_while_clients_connected": released_with_clients, "waiters": waiters, "history": history_json(&events, 200)}),
        );
    } else {
        rep.count("waiters_released_with_clients_connected", waiters as u64);
    }
    let rets: Vec<&vmon::evlog::Event> = events.iter().filter(|e| e.kind == "W_RET").collect();
    if rets.iter().any(|e| e.n != rets[0].n) {
        rep.violate("C17:drop:waiters-released-with-different-results", json!({"ident": ident, "results": rets.iter().map(|e| e.s.clone()).collect::<Vec<_>>()}));
    } else if rets[0].n != 1 {
        rep.violate("C17:drop:waiters-released-with-error", json!({"ident": ident, "result": rets[0].s, "history": history_json(&events, 200)}));
    }
    let first_ret = rets.iter().map(|e| e.seq).min().unwrap_or(u64::MAX);
    for (uid, size, o) in &answers {
        let h = idx.get(uid).unwrap_or(&empty);
        if !h.enter.is_empty() && h.ending().map(|s| s > first_ret).unwrap_or(true) {
            rep.violate("C17:drop:shutdown-finished-before-started-handler", json!({"ident": ident, "uid": uid, "first_waiter_release_seq": first_ret, "uid_history": h.json()}));
        }
        match o {
            Outcome::Ok200 => rep.count("in_flight_answers_complete", 1),
            o if o.is_harness_trouble() => rep.inconclusive("c17-drop-answer-harness-trouble"),
            o => rep.violate(
                format!("C17:drop:{m}:started-request-response-{}", o.tag()),
                json!({"ident": ident, "uid": uid, "size": size, "client_saw": o.json(), "uid_history": h.json()}),
            ),
        }
    }
    if served_after {
        rep.violate("C17:drop:request-served-after-shutdown-finished", json!({"ident": ident}));
    } else {
        rep.count("port_not_served_after_shutdown", 1);
    }
    false
}

pub fn run_shard(seed: u64, shard: u64, nshards: u64, total: u64) -> Out {
    let rep = Report::new(
        "C17",
        "E3-shutdown-by-drop",
        "shutdown requested by dropping the HttpServer handle (both task modes): 1-4 wait_for_shutdown() waiters obtained first, 0-3 \
         in-flight requests to gated handlers (answers 0 B - 300 kB), 0-2 idle keep-alive connections, optionally a connection attempt \
         right after the drop; gates open 0-8 ms after the drop.  Rules: every in-flight client gets its complete answer; every waiter is \
         released (bounded: 30 s after the handlers ended with clients connected, else 10 s more after they left; still pending => \
         violation), all with Ok; no waiter is released before a started handler has ended (sequence order); afterwards the old port does \
         not answer for this server instance; class = (mode, #in-flight, #idle, #waiters, late connection)",
    );
    let mut out = Out::new(rep);
    let mut case = shard;
    while case < total {
        if run_case(&mut out.rep, seed, shard, case) {
            out.rep.count("scenarios_not_run_after_a_pending-waiters_verdict", (total - case) / nshards);
            break;
        }
        case += nshards;
    }
    out
}
