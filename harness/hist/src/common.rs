//! Shared pieces of the C16 / C17 history monitors: harness handlers, request
//! builders, response verification, per-uid history index, CPU hogs, socket
//! helpers.  Oracles live in c16.rs / c17.rs.

use dropshot::{
    endpoint, ApiDescription, Body, HttpError, RequestContext, StreamingBody,
};
use futures::StreamExt;
use http::Response;
use serde_json::{json, Value};
use std::collections::{BTreeMap, BTreeSet, HashMap};
use std::sync::atomic::{AtomicBool, Ordering};
use std::sync::Arc;
use std::time::Duration;
use vmon::client::{Conn, ReadErr, Req};
use vmon::evlog::{EvLog, Event};
use vmon::report::Report;
use vmon::srv::C;

/// message prefix of the panic injected by the `panicking` handler
pub const INJECTED: &str = "vmon-injected-panic";

pub const BIG: usize = 8 << 20;

// ------------------------------------------------------------------ handlers

fn hdr_u64(rqctx: &RequestContext<C>, name: &str) -> Option<u64> {
    rqctx
        .request
        .headers()
        .get(name)
        .and_then(|v| v.to_str().ok())
        .and_then(|s| s.parse().ok())
}

/// deterministic response body for (uid, size)
pub fn payload(uid: u64, size: usize) -> Vec<u8> {
    let mut v = Vec::with_capacity(size + 8);
    let mut x = uid.wrapping_mul(0x9E37_79B9_7F4A_7C15) | 1;
    while v.len() + 8 <= size {
        x = x
            .wrapping_mul(6364136223846793005)
            .wrapping_add(1442695040888963407);
        v.extend_from_slice(&x.to_le_bytes());
    }
    while v.len() < size {
        v.push(b'~');
    }
    v
}

/// request addressed to another (older) harness server instance?
fn foreign(rqctx: &RequestContext<C>, uid: u64) -> Option<Response<Body>> {
    let ctx = rqctx.context();
    match hdr_u64(rqctx, "x-vmon-instance") {
        Some(i) if i != ctx.instance => {
            ctx.log.push("H_FOREIGN", uid, i as i64, "");
            Some(
                Response::builder()
                    .status(421)
                    .header("x-vmon-instance", ctx.instance.to_string())
                    .body(Body::from("request meant for another harness server instance"))
                    .unwrap(),
            )
        }
        _ => None,
    }
}

/// H_DROP n: 1 = handler future dropped after it completed, 0 = dropped before
/// completion (cancelled), 2 = dropped while unwinding from a panic
struct Guard {
    log: EvLog,
    uid: u64,
    done: bool,
}

impl Drop for Guard {
    fn drop(&mut self) {
        let n = if self.done {
            1
        } else if std::thread::panicking() {
            2
        } else {
            0
        };
        self.log.push("H_DROP", self.uid, n, "");
    }
}

async fn handler_impl(
    rqctx: RequestContext<C>,
    op: &'static str,
) -> Result<Response<Body>, HttpError> {
    let ctx = rqctx.context().clone();
    let uid = hdr_u64(&rqctx, "x-vmon-uid").unwrap_or(0);
    let size = hdr_u64(&rqctx, "x-vmon-size").unwrap_or(64) as usize;
    let k = hdr_u64(&rqctx, "x-vmon-k").unwrap_or(0);
    let step_us = hdr_u64(&rqctx, "x-vmon-step-us").unwrap_or(500);
    if let Some(r) = foreign(&rqctx, uid) {
        return Ok(r);
    }
    // Variant asked for by the client: the handler has taken what it needs out
    // of its RequestContext and lets go of it BEFORE it waits (so the handler
    // itself keeps no Arc<DropshotState> alive); otherwise rqctx lives until
    // the handler returns.
    let _held_rqctx = if hdr_u64(&rqctx, "x-vmon-drop-rqctx") == Some(1) {
        drop(rqctx);
        None
    } else {
        Some(rqctx)
    };
    ctx.log.push("H_ENTER", uid, ctx.instance as i64, op);
    let mut g = Guard { log: ctx.log.clone(), uid, done: false };
    match op {
        "panicking" => {
            panic!("{INJECTED} uid={uid}");
        }
        "stepping" => {
            // visible progress while waiting: at least k steps, and steps go
            // on until the gate is open (bounded, then plain gate wait)
            let mut i: u64 = 0;
            loop {
                if i < 3 {
                    tokio::task::yield_now().await;
                } else {
                    tokio::time::sleep(Duration::from_micros(step_us)).await;
                }
                ctx.log.push("H_STEP", uid, i as i64, "");
                i += 1;
                if i >= k && ctx.gates.is_open(uid) {
                    break;
                }
                if i >= 4000 {
                    ctx.gates.wait(uid).await;
                    break;
                }
            }
        }
        _ => {
            ctx.gates.wait(uid).await;
        }
    }
    let body = payload(uid, size);
    ctx.log.push("H_DONE", uid, size as i64, "");
    g.done = true;
    Ok(Response::builder()
        .status(200)
        .header("content-type", "application/octet-stream")
        .header("x-vmon-uid", uid.to_string())
        .header("x-vmon-instance", ctx.instance.to_string())
        .body(Body::from(body))
        .unwrap())
}

#[endpoint { method = GET, path = "/gated" }]
async fn h_gated(rqctx: RequestContext<C>) -> Result<Response<Body>, HttpError> {
    handler_impl(rqctx, "gated").await
}

/// no body extractor on purpose: the handler starts as soon as the request head
/// has arrived, even when the body is still (or for ever) incomplete
#[endpoint { method = POST, path = "/gated" }]
async fn h_gated_post(
    rqctx: RequestContext<C>,
) -> Result<Response<Body>, HttpError> {
    handler_impl(rqctx, "gated-post").await
}

#[endpoint { method = GET, path = "/stepping" }]
async fn h_stepping(
    rqctx: RequestContext<C>,
) -> Result<Response<Body>, HttpError> {
    handler_impl(rqctx, "stepping").await
}

#[endpoint { method = GET, path = "/big" }]
async fn h_big(rqctx: RequestContext<C>) -> Result<Response<Body>, HttpError> {
    handler_impl(rqctx, "big").await
}

#[endpoint { method = GET, path = "/panicking" }]
async fn h_panicking(
    rqctx: RequestContext<C>,
) -> Result<Response<Body>, HttpError> {
    handler_impl(rqctx, "panicking").await
}

/// Exotic-but-legal class: the handler holds the request body unread while it
/// waits for its gate, then drains it.  (hyper cannot see a disconnect behind
/// unread request bytes.)
#[endpoint { method = POST, path = "/stream" }]
async fn h_stream(
    rqctx: RequestContext<C>,
    body: StreamingBody,
) -> Result<Response<Body>, HttpError> {
    let ctx = rqctx.context().clone();
    let uid = hdr_u64(&rqctx, "x-vmon-uid").unwrap_or(0);
    let size = hdr_u64(&rqctx, "x-vmon-size").unwrap_or(64) as usize;
    if let Some(r) = foreign(&rqctx, uid) {
        return Ok(r);
    }
    ctx.log.push("H_ENTER", uid, ctx.instance as i64, "stream");
    let mut g = Guard { log: ctx.log.clone(), uid, done: false };
    ctx.gates.wait(uid).await;
    let mut got: usize = 0;
    let mut err = "";
    {
        let s = body.into_stream();
        tokio::pin!(s);
        while let Some(c) = s.next().await {
            match c {
                Ok(b) => got += b.len(),
                Err(_) => {
                    err = "body-error";
                    break;
                }
            }
        }
    }
    let out = payload(uid, size);
    ctx.log.push("H_DONE", uid, got as i64, err);
    g.done = true;
    Ok(Response::builder()
        .status(200)
        .header("x-vmon-uid", uid.to_string())
        .header("x-vmon-instance", ctx.instance.to_string())
        .header("x-vmon-got", got.to_string())
        .body(Body::from(out))
        .unwrap())
}

/// A handler that runs to its end and then returns an ERROR: the request
/// completes (with a 4xx response the client receives), it is not cancelled.
#[endpoint { method = GET, path = "/failing" }]
async fn h_failing(
    rqctx: RequestContext<C>,
) -> Result<Response<Body>, HttpError> {
    let ctx = rqctx.context().clone();
    let uid = hdr_u64(&rqctx, "x-vmon-uid").unwrap_or(0);
    if let Some(r) = foreign(&rqctx, uid) {
        return Ok(r);
    }
    ctx.log.push("H_ENTER", uid, ctx.instance as i64, "failing");
    let mut g = Guard { log: ctx.log.clone(), uid, done: false };
    ctx.gates.wait(uid).await;
    ctx.log.push("H_DONE", uid, 0, "returns-error");
    g.done = true;
    Err(HttpError::for_bad_request(None, format!("vmon failing handler uid={uid}")))
}

#[derive(serde::Deserialize, schemars::JsonSchema)]
struct TypedQuery {
    #[allow(dead_code)]
    n: u32,
}

/// only reached with a well-formed query; `?n=abc` ends in the extractor (400)
#[endpoint { method = GET, path = "/typed" }]
async fn h_typed(
    rqctx: RequestContext<C>,
    _q: dropshot::Query<TypedQuery>,
) -> Result<Response<Body>, HttpError> {
    let ctx = rqctx.context().clone();
    let uid = hdr_u64(&rqctx, "x-vmon-uid").unwrap_or(0);
    ctx.log.push("H_ENTER", uid, ctx.instance as i64, "typed");
    ctx.log.push("H_DONE", uid, 0, "");
    Ok(Response::builder().status(200).body(Body::from("ok")).unwrap())
}

#[endpoint { method = GET, path = "/whoami" }]
async fn h_whoami(rqctx: RequestContext<C>) -> Result<Response<Body>, HttpError> {
    let inst = rqctx.context().instance;
    Ok(Response::builder()
        .status(200)
        .header("x-vmon-instance", inst.to_string())
        .body(Body::from(inst.to_string()))
        .unwrap())
}

pub fn api() -> ApiDescription<C> {
    let mut api = ApiDescription::new();
    api.register(h_gated).unwrap();
    api.register(h_gated_post).unwrap();
    api.register(h_stepping).unwrap();
    api.register(h_big).unwrap();
    api.register(h_panicking).unwrap();
    api.register(h_stream).unwrap();
    api.register(h_failing).unwrap();
    api.register(h_typed).unwrap();
    api.register(h_whoami).unwrap();
    api
}

// ------------------------------------------------------------------ requests

/// `inst`: the server instance the client means to talk to.  Parallel scenarios
/// recycle ephemeral ports, so a client that connects after its own server has
/// closed may reach a *newer* harness server on the same port; handlers refuse
/// such requests (421) instead of treating them as their own.
pub fn mk_req(inst: u64, path: &str, uid: u64, size: usize, k: u64, step_us: u64) -> Req {
    Req::new("GET", path)
        .uid(uid)
        .header("x-vmon-instance", &inst.to_string())
        .header("x-vmon-size", &size.to_string())
        .header("x-vmon-k", &k.to_string())
        .header("x-vmon-step-us", &step_us.to_string())
}

/// what a client that stayed saw
#[derive(Clone, Debug, PartialEq)]
pub enum Outcome {
    Ok200,
    Status(u16),
    WrongBody(String),
    Closed,
    Truncated(usize),
    Reset(usize),
    Timeout,
    Malformed(String),
    Io(String),
}

impl Outcome {
    pub fn tag(&self) -> String {
        match self {
            Outcome::Ok200 => "200".into(),
            Outcome::Status(s) => format!("status{s}"),
            Outcome::WrongBody(_) => "wrong-body".into(),
            Outcome::Closed => "closed".into(),
            Outcome::Truncated(_) => "truncated".into(),
            Outcome::Reset(_) => "reset".into(),
            Outcome::Timeout => "timeout".into(),
            Outcome::Malformed(_) => "malformed".into(),
            Outcome::Io(_) => "io".into(),
        }
    }
    /// harness trouble: never a verdict
    pub fn is_harness_trouble(&self) -> bool {
        matches!(self, Outcome::Timeout | Outcome::Io(_))
    }
    pub fn json(&self) -> Value {
        json!(format!("{self:?}"))
    }
}

pub fn read_and_verify(
    conn: &mut Conn,
    uid: u64,
    size: usize,
    max_wait: Duration,
) -> Outcome {
    match conn.read_response_within(false, max_wait) {
        Ok(r) => {
            if r.status != 200 {
                return Outcome::Status(r.status);
            }
            if r.header_str("x-vmon-uid") != Some(uid.to_string()) {
                return Outcome::WrongBody(format!(
                    "x-vmon-uid {:?} instead of {uid}",
                    r.header_str("x-vmon-uid")
                ));
            }
            if r.body.len() != size {
                return Outcome::WrongBody(format!(
                    "body length {} instead of {size}",
                    r.body.len()
                ));
            }
            if r.body != payload(uid, size) {
                return Outcome::WrongBody("body bytes differ".into());
            }
            Outcome::Ok200
        }
        Err(ReadErr::Closed) => Outcome::Closed,
        Err(ReadErr::Truncated(b)) => Outcome::Truncated(b.len()),
        Err(ReadErr::Reset(b)) => Outcome::Reset(b.len()),
        Err(ReadErr::Timeout(_)) => Outcome::Timeout,
        Err(ReadErr::Malformed(w, _)) => Outcome::Malformed(w),
        Err(ReadErr::Io(e)) => Outcome::Io(e),
    }
}

/// read one response that is expected to be a complete 4xx error response
pub fn read_error_response(conn: &mut Conn, max_wait: Duration) -> Outcome {
    match conn.read_response_within(false, max_wait) {
        Ok(r) => Outcome::Status(r.status),
        Err(ReadErr::Closed) => Outcome::Closed,
        Err(ReadErr::Truncated(b)) => Outcome::Truncated(b.len()),
        Err(ReadErr::Reset(b)) => Outcome::Reset(b.len()),
        Err(ReadErr::Timeout(_)) => Outcome::Timeout,
        Err(ReadErr::Malformed(w, _)) => Outcome::Malformed(w),
        Err(ReadErr::Io(e)) => Outcome::Io(e),
    }
}

#[derive(Clone, Copy, Debug, PartialEq)]
pub enum Style {
    Close,
    Rst,
}

impl Style {
    pub fn tag(self) -> &'static str {
        match self {
            Style::Close => "close",
            Style::Rst => "rst",
        }
    }
}

/// full close (FIN in both directions, never a half-close) or RST
pub fn disconnect(conn: Conn, style: Style) {
    match style {
        Style::Close => drop(conn),
        Style::Rst => conn.rst(),
    }
}

/// shrink the client's receive buffer so that a large response cannot vanish
/// into kernel buffers (keeps the server's response write "long")
pub fn small_rcvbuf(conn: &Conn, bytes: usize) {
    use std::os::fd::AsRawFd;
    if let Some(s) = &conn.stream {
        let v: libc::c_int = bytes as libc::c_int;
        unsafe {
            libc::setsockopt(
                s.as_raw_fd(),
                libc::SOL_SOCKET,
                libc::SO_RCVBUF,
                &v as *const _ as *const libc::c_void,
                std::mem::size_of::<libc::c_int>() as u32,
            );
        }
    }
}

pub fn is_resource_err(e: &std::io::Error) -> bool {
    matches!(
        e.raw_os_error(),
        Some(libc::EADDRNOTAVAIL)
            | Some(libc::EMFILE)
            | Some(libc::ENFILE)
            | Some(libc::ENOBUFS)
            | Some(libc::ENOMEM)
            | Some(libc::EAGAIN)
            | Some(libc::EADDRINUSE)
    ) || e.kind() == std::io::ErrorKind::TimedOut
}

/// mark a request so that its handler drops its RequestContext before waiting
pub fn drop_rqctx(r: Req, yes: bool) -> Req {
    if yes {
        r.header("x-vmon-drop-rqctx", "1")
    } else {
        r
    }
}

pub fn mode_tag(m: dropshot::HandlerTaskMode) -> &'static str {
    match m {
        dropshot::HandlerTaskMode::Detached => "detached",
        dropshot::HandlerTaskMode::CancelOnDisconnect => "cancel",
    }
}

// ----------------------------------------------------------------- CPU hogs

pub struct Hogs(Arc<AtomicBool>);

impl Hogs {
    pub fn start(h: &tokio::runtime::Handle, n: usize) -> Hogs {
        let stop = Arc::new(AtomicBool::new(false));
        for _ in 0..n {
            let stop = stop.clone();
            h.spawn(async move {
                let mut x: u64 = 1;
                while !stop.load(Ordering::Relaxed) {
                    let t = std::time::Instant::now();
                    while t.elapsed() < Duration::from_micros(150) {
                        x = x.wrapping_mul(6364136223846793005).wrapping_add(1);
                        std::hint::black_box(x);
                    }
                    tokio::task::yield_now().await;
                }
            });
        }
        Hogs(stop)
    }
}

impl Drop for Hogs {
    fn drop(&mut self) {
        self.0.store(true, Ordering::Relaxed);
    }
}

// --------------------------------------------------------- history indexing

#[derive(Default, Debug, Clone)]
pub struct UidHist {
    pub enter: Vec<u64>,
    pub done: Vec<u64>,
    /// H_DROP before completion (cancelled)
    pub drop0: Vec<u64>,
    pub drop1: Vec<u64>,
    /// H_DROP while unwinding from a panic
    pub drop2: Vec<u64>,
    pub steps: Vec<u64>,
    pub disc_call: Option<u64>,
    pub disc_ret: Option<u64>,
    pub events: Vec<Event>,
}

impl UidHist {
    /// seq of the first ending event (done, cancelled, panicked)
    pub fn ending(&self) -> Option<u64> {
        [self.done.first(), self.drop0.first(), self.drop2.first()]
            .into_iter()
            .flatten()
            .min()
            .copied()
    }
    pub fn json(&self) -> Value {
        let mut evs: Vec<Value> = vec![];
        let mut steps = 0;
        for e in &self.events {
            if e.kind == "H_STEP" {
                steps += 1;
                if steps > 6 {
                    continue;
                }
            }
            evs.push(e.json());
        }
        json!({"events": evs, "steps_total": self.steps.len()})
    }
}

pub fn index(events: &[Event]) -> HashMap<u64, UidHist> {
    let mut m: HashMap<u64, UidHist> = HashMap::new();
    for e in events {
        if e.uid == 0 {
            continue;
        }
        let h = m.entry(e.uid).or_default();
        match e.kind {
            "H_ENTER" => h.enter.push(e.seq),
            "H_DONE" => h.done.push(e.seq),
            "H_DROP" => match e.n {
                0 => h.drop0.push(e.seq),
                1 => h.drop1.push(e.seq),
                _ => h.drop2.push(e.seq),
            },
            "H_STEP" => h.steps.push(e.seq),
            "C_DISC_CALL" => h.disc_call = Some(e.seq),
            "C_DISC_RET" => h.disc_ret = Some(e.seq),
            _ => {}
        }
        h.events.push(e.clone());
    }
    m
}

/// order of the interesting events of one uid, runs of steps collapsed
pub fn ordering(h: &UidHist, extra: &[(&'static str, u64)]) -> String {
    let mut v: Vec<(u64, &'static str)> = vec![];
    for e in &h.events {
        let t = match (e.kind, e.n) {
            ("H_ENTER", _) => "E",
            ("H_DONE", _) => "F",
            ("H_DROP", 0) => "X",
            ("H_DROP", 1) => "x",
            ("H_DROP", _) => "P",
            ("H_STEP", _) => "s",
            ("C_SENT_ALL", _) => "S",
            ("C_DISC_CALL", _) => "d",
            ("C_DISC_RET", _) => "D",
            ("G_OPEN", _) => "G",
            ("C_RESP", _) => "R",
            _ => continue,
        };
        v.push((e.seq, t));
    }
    for (t, s) in extra {
        v.push((*s, t));
    }
    v.sort();
    let mut out = String::new();
    let mut last = "";
    for (_, t) in v {
        if t == "s" && last == "s" {
            continue;
        }
        out.push_str(t);
        last = t;
    }
    out
}

/// maximum number of handlers in flight at once
pub fn max_concurrency(events: &[Event]) -> u64 {
    let mut live: BTreeSet<u64> = BTreeSet::new();
    let mut max = 0;
    for e in events {
        match (e.kind, e.n) {
            ("H_ENTER", _) => {
                live.insert(e.uid);
                max = max.max(live.len());
            }
            ("H_DONE", _) | ("H_DROP", _) => {
                live.remove(&e.uid);
            }
            _ => {}
        }
    }
    max as u64
}

pub fn count_kinds(rep: &mut Report, events: &[Event]) {
    let mut m: BTreeMap<String, u64> = BTreeMap::new();
    for e in events {
        let k = if e.kind == "H_DROP" {
            format!("ev_H_DROP_{}", e.n)
        } else {
            format!("ev_{}", e.kind)
        };
        *m.entry(k).or_insert(0) += 1;
    }
    for (k, v) in m {
        rep.count(&k, v);
    }
}

pub fn history_json(events: &[Event], cap: usize) -> Value {
    let mut out: Vec<Value> = vec![];
    let mut steps = 0usize;
    for e in events {
        if e.kind == "H_STEP" {
            steps += 1;
            continue;
        }
        if out.len() < cap {
            out.push(e.json());
        }
    }
    json!({"events": out, "total_events": events.len(), "h_step_events_elided": steps})
}

/// wait (bounded) until every uid that entered has an ending; true = quiescent
pub fn wait_handlers_ended(log: &EvLog, watchdog: Duration) -> bool {
    let deadline = std::time::Instant::now() + watchdog;
    loop {
        let mut open: BTreeSet<u64> = BTreeSet::new();
        let mut ended: BTreeSet<u64> = BTreeSet::new();
        for e in log.snapshot() {
            match (e.kind, e.n) {
                ("H_ENTER", _) => {
                    if !ended.contains(&e.uid) {
                        open.insert(e.uid);
                    }
                }
                ("H_DONE", _) | ("H_DROP", 0) | ("H_DROP", 2) => {
                    open.remove(&e.uid);
                    ended.insert(e.uid);
                }
                _ => {}
            }
        }
        if open.is_empty() {
            return true;
        }
        if std::time::Instant::now() >= deadline {
            return false;
        }
        std::thread::sleep(Duration::from_millis(2));
    }
}

/// result of the merged shards of one engine
pub struct Out {
    pub rep: Report,
    /// distinct interleaving signatures
    pub inter: BTreeSet<String>,
    pub maxc: u64,
    pub hangs: Vec<(u64, u64, String)>,
    /// histories of cases that ended inconclusive on a watchdog (diagnosis)
    pub notes: Vec<Value>,
}

impl Out {
    pub fn new(rep: Report) -> Out {
        Out { rep, inter: BTreeSet::new(), maxc: 0, hangs: vec![], notes: vec![] }
    }
    pub fn merge(&mut self, o: Out) {
        self.rep.merge(o.rep);
        self.inter.extend(o.inter);
        self.maxc = self.maxc.max(o.maxc);
        self.hangs.extend(o.hangs);
        for n in o.notes {
            self.note(n);
        }
    }
    pub fn note(&mut self, v: Value) {
        if self.notes.len() < 6 {
            self.notes.push(v);
        }
    }
    pub fn flush_notes(&mut self) {
        if !self.notes.is_empty() {
            self.rep.extra.insert("watchdog_witnesses".into(), json!(self.notes));
        }
    }
}
