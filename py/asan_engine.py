#!/usr/bin/env python3
"""asan_engine.py <PROP> <inner-engine> <inner-tier> <seed> <out> [<package> <binary>]

E6: repeat a vmon workload under an AddressSanitizer build (nightly,
-Zsanitizer=address) of the harness + dropshot + all dependencies.  Any ASan
report is a violation of <PROP> (a memory error reached through dropshot takes
the server down) with the report head as witness; the inner engine's own
verdicts count as well.  A build failure or a crash that is not a sanitizer
report is inconclusive (no report file => bin/check exits 2 for non-optional
engines; this engine is registered optional so that it is noted instead).
"""
import json, os, re, subprocess, sys, time

VERIF = os.path.dirname(os.path.dirname(os.path.abspath(__file__)))
HARNESS = os.environ.get("VERIF_HARNESS") or os.path.join(VERIF, "harness")
TARGET = os.path.join(os.environ.get("CARGO_TARGET_DIR") or os.path.join(HARNESS, "target"), "..", "target-asan") \
    if os.environ.get("VERIF_HARNESS") else os.path.join(HARNESS, "target-asan")
TRIPLE = "x86_64-unknown-linux-gnu"


def main():
    prop, inner, tier, seed, out = sys.argv[1:6]
    package = sys.argv[6] if len(sys.argv) > 6 else "vmon"
    binary = sys.argv[7] if len(sys.argv) > 7 else "vmon"
    t0 = time.time()
    env = dict(os.environ, CARGO_NET_OFFLINE="true", CARGO_TARGET_DIR=TARGET,
               RUSTFLAGS="-Zsanitizer=address -Cforce-frame-pointers=yes --cfg dropshot_verif")
    b = subprocess.run(["cargo", "+nightly", "build", "--release", "--offline", "-q", "--target", TRIPLE, "-p", package],
                       cwd=HARNESS, env=env, stdout=subprocess.PIPE, stderr=subprocess.STDOUT, text=True)
    if b.returncode != 0:
        sys.stderr.write("ASan build failed:\n" + b.stdout[-3000:])
        return 3
    build_s = time.time() - t0
    exe = os.path.join(TARGET, TRIPLE, "release", binary)
    inner_out = out + ".inner"
    renv = dict(os.environ, ASAN_OPTIONS="halt_on_error=1:abort_on_error=1:detect_leaks=0:symbolize=1:allocator_may_return_null=1",
                ASAN_SYMBOLIZER_PATH="/usr/bin/llvm-symbolizer-14")
    try:
        p = subprocess.run([exe, inner, "--seed", seed, "--tier", tier, "--out", inner_out, "--threads", "8"],
                           env=renv, stdout=subprocess.PIPE, stderr=subprocess.PIPE, text=True, errors="replace", timeout=3000)
        timed_out = False
    except subprocess.TimeoutExpired:
        timed_out = True
        p = None
    rep = {"property": prop, "engine": f"asan:{inner}", "rule": f"the {inner} workload ({tier} volume) repeated under an "
           "AddressSanitizer build of harness, dropshot and every dependency (halt_on_error=1); a class is a class of the inner "
           "workload observed without sanitizer report",
           "evaluations": 0, "distinct_nontrivial": 0, "samples": [], "violations": [], "inconclusive": {}, "counters": {},
           "extra": {"tool": "AddressSanitizer (rustc nightly -Zsanitizer=address)", "asan_build_s": round(build_s, 1)}, "exhaustive": None}
    stderr = p.stderr if p else ""
    reports = re.findall(r"ERROR: AddressSanitizer: ([^\n]*)", stderr)
    rep["extra"]["sanitizer_reports"] = len(reports)
    if os.path.exists(inner_out):
        inner_rep = json.load(open(inner_out))
        os.unlink(inner_out)
        for k in ("evaluations", "distinct_nontrivial", "samples", "violations", "inconclusive", "counters"):
            rep[k] = inner_rep[k]
        rep["samples"] = rep["samples"][:3]
    if reports:
        head = stderr[stderr.index("ERROR: AddressSanitizer"):][:4000]
        frames = re.findall(r"#\d+ 0x[0-9a-f]+ in (\S+) ([^\n]*)", head)
        first = next((f"{fn}" for fn, loc in frames if "/repo/" in loc), frames[0][0] if frames else "?")
        rep["violations"].append({"sig": f"{prop}:sanitizer-report:{reports[0].split()[0]}:{first}", "count": len(reports),
                                  "details": [{"tool": "asan", "inner_engine": inner, "seed": int(seed), "report": head}]})
    elif timed_out:
        rep["inconclusive"]["asan run hit its watchdog"] = 1
    elif p.returncode != 0 and not os.path.exists(inner_out) and rep["evaluations"] == 0:
        sys.stderr.write(f"ASan run of {inner} exited {p.returncode} without a sanitizer report:\n{stderr[-2000:]}")
        return 4
    rep["wall_s"] = time.time() - t0
    rep["seed"] = int(seed)
    rep["tier"] = "thorough"
    json.dump(rep, open(out, "w"), indent=1)
    return 0


if __name__ == "__main__":
    sys.exit(main())
