"""Schema tooling shared by the C07 and C08 document oracles.

* independent validators: python `jsonschema` Draft7 (schemars source
  schemas) and Draft4 (OpenAPI 3.0 published schemas), both extended with the
  OpenAPI `nullable: true` rule (a schema object carrying it accepts null);
* an own instance generator over the schema fragment dropshot / schemars emit
  (both bound dialects: numeric and boolean exclusive*), format aware;
* near-miss mutations guided by the schema;
* a pointer-wise structural comparison source -> published.

Nothing here is derived from dropshot's code.
"""
import copy
import math
import re

from jsonschema import Draft4Validator, Draft7Validator, validators

# ---------------------------------------------------------------------------
# validators
# ---------------------------------------------------------------------------


def _nullable(fn):
    def wrapped(validator, value, instance, schema):
        if instance is None and isinstance(schema, dict) and schema.get("nullable") is True:
            return
        r = fn(validator, value, instance, schema)
        if r is not None:
            yield from r
    return wrapped


V4 = validators.extend(Draft4Validator, {k: _nullable(f) for k, f in Draft4Validator.VALIDATORS.items()})
V7 = validators.extend(Draft7Validator, {k: _nullable(f) for k, f in Draft7Validator.VALIDATORS.items()})


class Ctx:
    """A schema together with the document its `#/components/schemas/..`
    references resolve in."""

    def __init__(self, schema, components, dialect, format_checker=None):
        self.schema = schema
        self.components = components or {}
        self.dialect = dialect
        cls = V7 if dialect == 7 else V4
        doc = {"$ref": "#/root", "root": schema, "components": {"schemas": self.components}}
        self.root = cls(doc, format_checker=format_checker)

    def valid(self, inst, node=None):
        v = self.root if node is None else self.root.evolve(schema=node)
        try:
            return v.is_valid(inst)
        except RecursionError:
            return None

    def errors(self, inst, limit=3):
        out = []
        for e in self.root.iter_errors(inst):
            out.append("%s: %s" % ("/".join(str(p) for p in e.absolute_path), e.message[:200]))
            if len(out) >= limit:
                break
        return out

    def resolve(self, node, limit=20):
        """follow `$ref`s; returns (node, name of the last component followed)"""
        name = None
        while isinstance(node, dict) and "$ref" in node and limit > 0:
            ref = node["$ref"]
            if not ref.startswith("#/components/schemas/"):
                return None, name
            name = ref[len("#/components/schemas/"):]
            node = self.components.get(name)
            limit -= 1
        return node, name


NUMERIC_KEYWORDS = ("minimum", "maximum", "exclusiveMinimum", "exclusiveMaximum", "multipleOf",
                    "minLength", "maxLength", "minItems", "maxItems", "minProperties", "maxProperties")


def normalise_numbers(node):
    """`1.0` and `1` are the same JSON number; python-jsonschema however
    switches between float and exact integer arithmetic on the python type
    (multipleOf on huge integers), so integral floats in numeric keywords are
    turned into ints, in place, on both sides."""
    if isinstance(node, dict):
        for k, v in node.items():
            if k in NUMERIC_KEYWORDS and isinstance(v, float) and v.is_integer() and abs(v) < 2**63:
                node[k] = int(v)
            elif isinstance(v, (dict, list)):
                normalise_numbers(v)
    elif isinstance(node, list):
        for v in node:
            normalise_numbers(v)
    return node


def unguarded_cycle(components):
    """name of a component that reaches itself through $ref / allOf / anyOf /
    oneOf / not only (no instance level in between): such a schema is
    ill-formed (validation does not terminate) and outside the domain."""
    def direct(node, out):
        if not isinstance(node, dict):
            return
        r = node.get("$ref")
        if isinstance(r, str) and r.startswith("#/components/schemas/"):
            out.add(r[len("#/components/schemas/"):])
        for c in ("allOf", "anyOf", "oneOf"):
            for sub in node.get(c, []) if isinstance(node.get(c), list) else []:
                direct(sub, out)
        if isinstance(node.get("not"), dict):
            direct(node["not"], out)
    edges = {}
    for n, sch in components.items():
        edges[n] = set()
        direct(sch, edges[n])
    for start in edges:
        seen, stack = set(), list(edges[start])
        while stack:
            x = stack.pop()
            if x == start:
                return start
            if x in seen or x not in edges:
                continue
            seen.add(x)
            stack.extend(edges[x])
    return None


# ---------------------------------------------------------------------------
# helpers
# ---------------------------------------------------------------------------

def is_num(x):
    return isinstance(x, (int, float)) and not isinstance(x, bool)


def json_eq(a, b):
    """JSON equality with numbers compared numerically (1.0 == 1)."""
    if is_num(a) and is_num(b):
        return a == b
    if isinstance(a, bool) or isinstance(b, bool):
        return a is b
    if type(a) is not type(b):
        return False
    if isinstance(a, dict):
        return a.keys() == b.keys() and all(json_eq(a[k], b[k]) for k in a)
    if isinstance(a, list):
        return len(a) == len(b) and all(json_eq(x, y) for x, y in zip(a, b))
    return a == b


def lower_bound(s):
    """(value, exclusive) in either dialect, or None"""
    emin = s.get("exclusiveMinimum")
    if is_num(emin):
        return (emin, True)
    if is_num(s.get("minimum")):
        return (s["minimum"], emin is True)
    return None


def upper_bound(s):
    emax = s.get("exclusiveMaximum")
    if is_num(emax):
        return (emax, True)
    if is_num(s.get("maximum")):
        return (s["maximum"], emax is True)
    return None


def kind_of(s):
    if s is True or s == {}:
        return "any"
    if not isinstance(s, dict):
        return "bool-schema"
    if "$ref" in s:
        k = "ref"
    else:
        k = None
        for c in ("allOf", "anyOf", "oneOf", "not"):
            if c in s:
                k = c
                break
        if k is None:
            t = s.get("type")
            k = t if isinstance(t, str) else "any"
            if "enum" in s:
                k += "-enum"
            elif "const" in s:
                k += "-const"
    if s.get("nullable") is True:
        k += "+nullable"
    return k


INT_FORMATS = {
    "int8": (-2**7, 2**7 - 1), "int16": (-2**15, 2**15 - 1), "int32": (-2**31, 2**31 - 1),
    "int64": (-2**63, 2**63 - 1), "int": (-2**63, 2**63 - 1),
    "uint8": (0, 2**8 - 1), "uint16": (0, 2**16 - 1), "uint32": (0, 2**32 - 1),
    "uint64": (0, 2**64 - 1), "uint": (0, 2**64 - 1),
    "int128": (-2**127, 2**127 - 1), "uint128": (0, 2**128 - 1),
}
NUM_FORMATS = {"float": 3.4028234e38, "double": 1.7976931348623157e308}
STR_FORMATS = ("uuid", "date-time", "date", "ip", "ipv4", "ipv6", "password", "byte", "binary",
               "partial-date-time", "uri", "email")

PATTERN_CANDIDATES = ["abc", "x", "xab", "123", "123-4567", "Abc", "", "ab", "zz9", "a b", "q", "Xyz", "xyzzy", "cab"]
ALPHABET = "abcxyzABC019 _-é/?&=%+#\"\\é中\U0001F600"


# ---------------------------------------------------------------------------
# instance generation
# ---------------------------------------------------------------------------

class Gen:
    def __init__(self, rng, ctx, honour_formats=True, max_depth=6, safe_strings=False, extras=True):
        self.r = rng
        self.ctx = ctx
        self.honour_formats = honour_formats
        self.max_depth = max_depth
        self.unknown_formats = set()
        # safe_strings: no control characters etc. (values that travel in URLs / headers)
        self.safe_strings = safe_strings
        # extras: add properties the schema does not name where it allows them
        self.extras = extras

    # ---- scalars
    def rand_string(self, lo=0, hi=None):
        if hi is None:
            hi = lo + self.r.choice((0, 1, 3, 8))
        n = self.r.randint(lo, max(lo, hi))
        return "".join(self.r.choice(ALPHABET) for _ in range(n))

    def any_value(self, d=0):
        k = self.r.randrange(7 if d < 2 else 5)
        if k == 0:
            return None
        if k == 1:
            return self.r.random() < 0.5
        if k == 2:
            return self.r.randint(-100, 100)
        if k == 3:
            return self.r.randint(-400, 400) / 4.0 + 0.125
        if k == 4:
            return self.rand_string(0, 5)
        if k == 5:
            return [self.any_value(d + 1) for _ in range(self.r.randrange(3))]
        return {self.rand_string(1, 3): self.any_value(d + 1) for _ in range(self.r.randrange(3))}

    def string_for(self, s):
        fmt = s.get("format")
        lo = s.get("minLength", 0)
        hi = s.get("maxLength")
        pat = s.get("pattern")
        if pat is not None:
            try:
                rx = re.compile(pat)
                ok = [c for c in PATTERN_CANDIDATES
                      if rx.search(c) and len(c) >= lo and (hi is None or len(c) <= hi)]
            except re.error:
                ok = []
            if ok:
                return self.r.choice(ok)
            self.unknown_formats.add("pattern:" + pat)
            return self.rand_string(lo, hi)
        if fmt is not None and self.honour_formats:
            r = self.r
            if fmt == "uuid":
                h = "%032x" % r.getrandbits(128)
                return "-".join((h[:8], h[8:12], h[12:16], h[16:20], h[20:]))
            if fmt == "date-time":
                return "%04d-%02d-%02dT%02d:%02d:%02d%sZ" % (
                    r.randint(1970, 2200), r.randint(1, 12), r.randint(1, 28), r.randint(0, 23),
                    r.randint(0, 59), r.randint(0, 59), r.choice(("", ".5", ".123456")))
            if fmt == "partial-date-time":
                return "%04d-%02d-%02dT%02d:%02d:%02d" % (
                    r.randint(1970, 2200), r.randint(1, 12), r.randint(1, 28), r.randint(0, 23),
                    r.randint(0, 59), r.randint(0, 59))
            if fmt == "date":
                return "%04d-%02d-%02d" % (r.randint(1970, 2200), r.randint(1, 12), r.randint(1, 28))
            if fmt == "ipv4" or (fmt == "ip" and r.random() < 0.5):
                return ".".join(str(r.randint(0, 255)) for _ in range(4))
            if fmt in ("ipv6", "ip"):
                return r.choice(("::1", "fe80::1", "2001:db8::8a2e:370:7334", "::", "1:2:3:4:5:6:7:8"))
            if fmt in ("password", "binary"):
                return self.rand_string(lo, hi)
            if fmt == "byte":
                import base64
                return base64.b64encode(bytes(r.getrandbits(8) for _ in range(r.randrange(6)))).decode()
            if fmt == "uri":
                return "http://example.com/" + r.choice(("", "a", "b?c=d"))
            if fmt == "email":
                return r.choice(("a@example.com", "x.y@z.org"))
            self.unknown_formats.add(fmt)
        return self.rand_string(lo, hi)

    def number_for(self, s, integer):
        r = self.r
        lb, ub = lower_bound(s), upper_bound(s)
        fmt = s.get("format")
        flo = fhi = None
        if fmt is not None and self.honour_formats:
            if integer and fmt in INT_FORMATS:
                flo, fhi = INT_FORMATS[fmt]
            elif not integer and fmt in NUM_FORMATS:
                flo, fhi = -NUM_FORMATS[fmt], NUM_FORMATS[fmt]
            else:
                self.unknown_formats.add(fmt)
        lo = lb[0] if lb else None
        hi = ub[0] if ub else None
        if flo is not None:
            lo = flo if lo is None else max(lo, flo)
            hi = fhi if hi is None else min(hi, fhi)
        mult = s.get("multipleOf")
        if integer:
            ilo = None if lo is None else (math.floor(lo) + 1 if (lb and lb[1] and lo == lb[0]) else math.ceil(lo))
            ihi = None if hi is None else (math.ceil(hi) - 1 if (ub and ub[1] and hi == ub[0]) else math.floor(hi))
            if ilo is None and ihi is None:
                base = r.choice((0, 1, -1, 7, 100, 65536, 2**31, -2**31 - 1, 2**53 + 1, 2**63 - 1))
                v = base if r.random() < 0.3 else r.randint(-1000, 1000)
            elif ilo is None:
                v = ihi - r.choice((0, 1, 5, 1000))
            elif ihi is None:
                v = ilo + r.choice((0, 1, 5, 1000))
            elif ilo > ihi:
                v = ilo
            else:
                v = r.choice((ilo, ihi, r.randint(ilo, ihi), r.randint(ilo, min(ihi, ilo + 20))))
            if is_num(mult) and mult >= 1 and float(mult).is_integer():
                m = int(mult)
                v2 = (v // m) * m
                if ilo is not None and v2 < ilo:
                    v2 += m
                v = v2
            return int(v)
        # number
        elo = lb[0] if lb else None
        ehi = ub[0] if ub else None
        if elo is None and ehi is None:
            v = r.choice((0.5, -1.25, 3.75, 1e10 + 0.5, 123.456, r.randint(-4000, 4000) / 8.0 + 0.0625))
        else:
            a = elo if elo is not None else ehi - 100.0
            b = ehi if ehi is not None else elo + 100.0
            if a > b:
                a, b = b, a
            steps = r.randint(0, 16)
            v = a + (b - a) * steps / 16.0
            if lb and lb[1] and v == lb[0]:
                v = a + (b - a) / 32.0
            if ub and ub[1] and v == ub[0]:
                v = b - (b - a) / 32.0
        if fhi is not None:
            v = max(-fhi, min(fhi, v))
        if is_num(mult) and mult > 0 and abs(v) < 1e15:
            v = round(v / mult) * mult
        if float(v).is_integer():
            # integral floats are judged differently by Draft4 and Draft7 at
            # `integer` positions; use the int so the JSON text is unambiguous
            v = int(v)
        return v

    # ---- composite
    def gen(self, s, d=0):
        r = self.r
        if s is True or s is None:
            return self.any_value(1)
        if s is False:
            return None
        if not isinstance(s, dict):
            return None
        if d > self.max_depth:
            s2, _ = self.ctx.resolve(s)
            return self.shallow(s2 if isinstance(s2, dict) else {})
        if "$ref" in s:
            t, _ = self.ctx.resolve(s)
            if t is None:
                return None
            return self.gen(t, d + 1)
        if s.get("nullable") is True and r.random() < 0.15:
            return None
        if "enum" in s and s["enum"]:
            return copy.deepcopy(r.choice(s["enum"]))
        if "const" in s:
            return copy.deepcopy(s["const"])
        if "allOf" in s:
            parts = [self.gen(x, d + 1) for x in s["allOf"]]
            if all(isinstance(p, dict) for p in parts):
                out = {}
                for p in parts:
                    out.update(p)
                return out
            return parts[0] if parts else None
        for comb in ("oneOf", "anyOf"):
            if comb in s and s[comb]:
                return self.gen(r.choice(s[comb]), d + 1)
        if "not" in s and "type" not in s:
            return self.any_value(1)
        t = s.get("type")
        if isinstance(t, list):
            t = r.choice(t)
        if t is None:
            if "properties" in s or "additionalProperties" in s or "required" in s:
                t = "object"
            elif "items" in s:
                t = "array"
            else:
                return self.any_value(1)
        if t == "string":
            return self.string_for(s)
        if t == "integer":
            return self.number_for(s, True)
        if t == "number":
            return self.number_for(s, False)
        if t == "boolean":
            return r.random() < 0.5
        if t == "null":
            return None
        if t == "array":
            lo = s.get("minItems", 0)
            hi = s.get("maxItems")
            if hi is None:
                hi = lo + r.choice((0, 1, 2, 3))
            n = r.randint(lo, max(lo, hi)) if d < self.max_depth - 3 else lo
            items = s.get("items", True)
            out = []
            tries = 0
            while len(out) < n and tries < 5 * n + 5:
                tries += 1
                v = self.gen(items, d + 1)
                if s.get("uniqueItems") and any(json_eq(v, o) for o in out):
                    continue
                out.append(v)
            return out
        if t == "object":
            props = s.get("properties", {})
            req = s.get("required", [])
            out = {}
            for k, ps in props.items():
                if k in req or (r.random() < 0.5 and d < self.max_depth - 3):
                    out[k] = self.gen(ps, d + 1)
            for k in req:
                if k not in out:
                    out[k] = self.any_value(1)
            ap = s.get("additionalProperties")
            maxp = s.get("maxProperties")
            minp = s.get("minProperties", 0)
            want_extra = 0
            if isinstance(ap, dict) or ap is True:
                want_extra = r.choice((0, 1, 2)) if props else r.choice((0, 1, 2, 3))
            elif ap is None and self.extras and r.random() < 0.15:
                want_extra = 1
            if d >= self.max_depth - 3:
                want_extra = 0
            if len(out) + want_extra < minp and ap is not False:
                want_extra = minp - len(out)
            for _ in range(want_extra):
                if maxp is not None and len(out) >= maxp:
                    break
                k = self.rand_string(1, 4)
                if k in props or k in out:
                    continue
                out[k] = self.gen(ap, d + 1) if isinstance(ap, dict) else self.any_value(1)
            return out
        return self.any_value(1)

    def shallow(self, s):
        t = s.get("type") if isinstance(s, dict) else None
        if "enum" in s and s["enum"]:
            return copy.deepcopy(s["enum"][0])
        return {"string": "s", "integer": 1, "number": 1.5, "boolean": True, "array": [], "object": {},
                "null": None}.get(t, None)


# ---------------------------------------------------------------------------
# co-walk of (source schema, published schema, instance)
# ---------------------------------------------------------------------------

def cowalk(sctx, pctx, s, p, inst, ptr="", out=None, depth=0, tainted=False, taint=None):
    """Pairs of corresponding schema nodes along the structure of `inst`.
    yields tuples (ptr, source node, published node, sub-instance, tainted)."""
    if out is None:
        out = []
    if depth > 40 or len(out) > 400:
        return out
    if isinstance(s, dict) and "$ref" in s and isinstance(p, dict) and "$ref" in p and taint is not None:
        if (s["$ref"], p["$ref"]) in taint:
            tainted = True
    s, _ = sctx.resolve(s) if isinstance(s, dict) else (s, None)
    p, _ = pctx.resolve(p) if isinstance(p, dict) else (p, None)
    if not isinstance(s, dict) or not isinstance(p, dict):
        return out
    out.append((ptr, s, p, inst, tainted))
    for comb in ("allOf", "anyOf", "oneOf"):
        if comb in s and comb in p and len(s[comb]) == len(p[comb]):
            for i, (a, b) in enumerate(zip(s[comb], p[comb])):
                cowalk(sctx, pctx, a, b, inst, "%s/%s/%d" % (ptr, comb, i), out, depth + 1, tainted, taint)
    if "allOf" in s and len(s["allOf"]) == 1 and "allOf" not in p:
        cowalk(sctx, pctx, s["allOf"][0], p, inst, ptr + "/allOf/0", out, depth + 1, tainted, taint)
    if isinstance(inst, dict):
        for k, v in inst.items():
            a = s.get("properties", {}).get(k)
            b = p.get("properties", {}).get(k)
            if a is None and isinstance(s.get("additionalProperties"), dict):
                a = s["additionalProperties"]
            if b is None and isinstance(p.get("additionalProperties"), dict):
                b = p["additionalProperties"]
            if a is not None and b is not None:
                cowalk(sctx, pctx, a, b, v, "%s/%s" % (ptr, k), out, depth + 1, tainted, taint)
    elif isinstance(inst, list):
        a, b = s.get("items"), p.get("items")
        if isinstance(a, dict) and isinstance(b, dict):
            for i, v in enumerate(inst[:6]):
                cowalk(sctx, pctx, a, b, v, "%s/%d" % (ptr, i), out, depth + 1, tainted, taint)
    return out


# ---------------------------------------------------------------------------
# near-miss mutations
# ---------------------------------------------------------------------------

def schema_positions(ctx, s, inst, path=(), out=None, depth=0):
    """(path into the instance, schema node) for every position whose schema is known"""
    if out is None:
        out = []
    if depth > 30 or len(out) > 200:
        return out
    s, _ = ctx.resolve(s) if isinstance(s, dict) else (s, None)
    if not isinstance(s, dict):
        return out
    out.append((path, s))
    for comb in ("allOf", "anyOf", "oneOf"):
        for sub in s.get(comb, []):
            schema_positions(ctx, sub, inst, path, out, depth + 1)
    if isinstance(inst, dict):
        for k, v in inst.items():
            a = s.get("properties", {}).get(k)
            if a is None and isinstance(s.get("additionalProperties"), dict):
                a = s["additionalProperties"]
            if a is not None:
                schema_positions(ctx, a, v, path + (k,), out, depth + 1)
    elif isinstance(inst, list):
        a = s.get("items")
        if isinstance(a, dict):
            for i, v in enumerate(inst[:6]):
                schema_positions(ctx, a, v, path + (i,), out, depth + 1)
    return out


def _get(inst, path):
    for k in path:
        inst = inst[k]
    return inst


def _set(inst, path, v):
    if not path:
        return v
    inst = copy.deepcopy(inst)
    cur = inst
    for k in path[:-1]:
        cur = cur[k]
    cur[path[-1]] = v
    return inst


WRONG = {"string": (5, True, None, ["s"]), "integer": ("7", 1.5, None, True), "number": ("1.5", None, [1], False),
         "boolean": ("true", 0, None), "array": ({}, "[]", None, 3), "object": ([], "{}", None, 0),
         "null": (0, "", False)}


def mutate(rng, ctx, schema, inst, allow_null=True):
    """one near-miss of `inst`; returns (kind, mutated) or None"""
    pos = schema_positions(ctx, schema, inst)
    if not pos:
        return None
    for _ in range(12):
        path, s = rng.choice(pos)
        try:
            cur = _get(inst, path)
        except (KeyError, IndexError, TypeError):
            continue
        kinds = ["wrong-type"]
        if allow_null:
            kinds.append("null")
        if isinstance(cur, dict):
            if s.get("required"):
                kinds += ["drop-required"] * 3
            kinds += ["extra-property"] * 2
            if "maxProperties" in s or "minProperties" in s:
                kinds += ["property-count"] * 2
        if "enum" in s or "const" in s:
            kinds += ["unknown-enum"] * 3
        if is_num(cur) and (lower_bound(s) or upper_bound(s) or "multipleOf" in s):
            kinds += ["bound"] * 4
        if isinstance(cur, str) and ("minLength" in s or "maxLength" in s):
            kinds += ["length"] * 4
        if isinstance(cur, str) and "pattern" in s:
            kinds += ["pattern"] * 3
        if isinstance(cur, list):
            if "minItems" in s or "maxItems" in s:
                kinds += ["item-count"] * 4
            if s.get("uniqueItems"):
                kinds += ["duplicate-item"] * 4
        k = rng.choice(kinds)
        if k == "null":
            return k, _set(inst, path, None)
        if k == "wrong-type":
            t = s.get("type") if isinstance(s.get("type"), str) else \
                {dict: "object", list: "array", str: "string", bool: "boolean", int: "integer", float: "number",
                 type(None): "null"}.get(type(cur), "string")
            return k, _set(inst, path, copy.deepcopy(rng.choice(WRONG.get(t, (None, 0)))))
        if k == "drop-required":
            key = rng.choice(s["required"])
            if key in cur:
                new = dict(cur)
                del new[key]
                return k, _set(inst, path, new)
            continue
        if k == "extra-property":
            new = dict(cur)
            new["zz_extra"] = rng.choice((1, "x", None, {"a": 1}))
            return k, _set(inst, path, new)
        if k == "property-count":
            new = dict(cur)
            if "maxProperties" in s:
                i = 0
                while len(new) <= s["maxProperties"]:
                    new["zz%d" % i] = i
                    i += 1
            else:
                while len(new) >= max(1, s["minProperties"]):
                    new.pop(next(iter(new)))
            return k, _set(inst, path, new)
        if k == "unknown-enum":
            e = s["enum"] if "enum" in s else [s["const"]]
            cand = rng.choice(("zz_unknown", 424242, None, e[0].upper() if e and isinstance(e[0], str) else "Zz",
                               (e[0] + 1) if e and is_num(e[0]) else -99))
            return k, _set(inst, path, cand)
        if k == "bound":
            cands = []
            integer = isinstance(cur, int)
            step = 1 if integer else 0.25
            for b in (lower_bound(s), upper_bound(s)):
                if b:
                    cands += [b[0] - step, b[0], b[0] + step]
            if "multipleOf" in s and is_num(s["multipleOf"]):
                cands += [cur + s["multipleOf"] / 2.0 if not integer else cur + 1]
            v = rng.choice(cands)
            if integer and float(v).is_integer():
                v = int(v)
            elif float(v).is_integer():
                v = int(v)
            return k, _set(inst, path, v)
        if k == "length":
            cands = []
            if "minLength" in s and s["minLength"] > 0:
                cands += ["a" * (s["minLength"] - 1), "a" * s["minLength"]]
            if "maxLength" in s:
                cands += ["a" * (s["maxLength"] + 1), "a" * s["maxLength"]]
            if not cands:
                continue
            return k, _set(inst, path, rng.choice(cands))
        if k == "pattern":
            try:
                rx = re.compile(s["pattern"])
            except re.error:
                continue
            bad = [c for c in PATTERN_CANDIDATES if not rx.search(c)]
            if not bad:
                continue
            return k, _set(inst, path, rng.choice(bad))
        if k == "item-count":
            new = list(cur)
            if "maxItems" in s and (rng.random() < 0.5 or "minItems" not in s):
                filler = new[0] if new else 0
                i = 0
                while len(new) <= s["maxItems"]:
                    new.append(copy.deepcopy(filler) if not s.get("uniqueItems") else i)
                    i += 1
            else:
                new = new[:max(0, s.get("minItems", 0) - 1)]
            return k, _set(inst, path, new)
        if k == "duplicate-item":
            if cur:
                return k, _set(inst, path, list(cur) + [copy.deepcopy(cur[0])])
            continue
    return None


# ---------------------------------------------------------------------------
# structural comparison
# ---------------------------------------------------------------------------

# the annotations the property names: title, description, format, default,
# nullability, deprecation, example (x-* handled by prefix)
ANNOTATIONS = ("title", "description", "format", "default", "nullable", "deprecated", "example")
FALSE_IS_ABSENT = ("nullable", "deprecated", "readOnly", "writeOnly", "uniqueItems")
SIMPLE_CONSTRAINTS = ("type", "const", "minLength", "maxLength", "pattern", "multipleOf", "minItems", "maxItems",
                      "uniqueItems", "minProperties", "maxProperties")
CONSTRAINT_KEYS = set(SIMPLE_CONSTRAINTS) | {
    "enum", "required", "properties", "additionalProperties", "items", "allOf", "anyOf", "oneOf", "not",
    "minimum", "maximum", "exclusiveMinimum", "exclusiveMaximum"}


class Diff:
    def __init__(self):
        self.items = []      # (kind, keyword, pointer, source value, published value, flags)
        self.added = []      # constraint keywords only the published schema has
        self.pairs = set()   # (source ref, published ref) pairs visited
        self.renamed = []    # ref pairs whose names differ

    def add(self, kind, kw, ptr, sv, pv, flags):
        self.items.append({"kind": kind, "keyword": kw, "pointer": ptr or "/", "source": sv, "published": pv,
                           "flags": sorted(flags)})


def compare(sctx, pctx, s, p, diff, ptr="", flags=frozenset(), skip=frozenset(), depth=0):
    """Every annotation / constraint of source node `s` must be present and
    equal at published node `p`.  `skip`: keywords not compared at this node
    (site-level mappings such as description -> parameter.description)."""
    if depth > 60:
        return
    if s is True:
        s = {}
    if p is True:
        p = {}
    if not isinstance(s, dict):
        if s is False and p is not False:
            diff.add("altered", "false-schema", ptr, s, p, flags)
        return
    if not isinstance(p, dict):
        if s:
            diff.add("altered", "schema", ptr, s, p, flags)
        return
    # references
    if "$ref" in s:
        if "$ref" in p:
            pair = (s["$ref"], p["$ref"])
            if pair in diff.pairs:
                return
            diff.pairs.add(pair)
            if pair[0] != pair[1]:
                diff.renamed.append(pair)
            st, _ = sctx.resolve(s, 1)
            pt, _ = pctx.resolve(p, 1)
            if st is None or pt is None:
                diff.add("altered", "$ref", ptr, s["$ref"], p["$ref"] + (" (dangling)" if pt is None else ""), flags)
                return
            compare(sctx, pctx, st, pt, diff, ptr + "/$ref", flags | {"via:" + pair[1]}, frozenset(), depth + 1)
            return
        # published inlined what the source references: compare the target
        st, _ = sctx.resolve(s, 1)
        if st is None:
            return
        compare(sctx, pctx, st, p, diff, ptr + "/$ref", flags, skip, depth + 1)
        return
    if "$ref" in p:
        # Source is inline, published is a bare reference.  Two legitimate readings:
        #  A. the published reference names this very schema (root of a
        #     referenceable type): follow it and compare in place;
        #  B. the source is the RemoveRefSiblings form `{allOf: [{$ref}], siblings..}`
        #     of a reference and the published side kept only the reference:
        #     the reference targets correspond, the siblings were dropped.
        # B is only possible for the wrapper form.
        pt, _ = pctx.resolve(p, 1)
        if pt is None:
            diff.add("altered", "$ref", ptr, None, p["$ref"] + " (dangling)", flags)
            return
        wrapper = ("allOf" in s and len(s["allOf"]) == 1 and isinstance(s["allOf"][0], dict)
                   and "$ref" in s["allOf"][0])

        def reading_a(d):
            compare(sctx, pctx, s, pt, d, ptr, flags | {"via:" + p["$ref"]}, skip, depth + 1)

        def reading_b(d):
            compare(sctx, pctx, s["allOf"][0], p, d, ptr + "/allOf/0", flags, frozenset(), depth + 1)
            for k, v in s.items():
                if k == "allOf" or k in skip:
                    continue
                if k in FALSE_IS_ABSENT and v is False:
                    continue
                if k in ANNOTATIONS or k.startswith("x-") or k in CONSTRAINT_KEYS:
                    d.add("dropped", k, ptr, v, None, flags | {"beside-ref"})

        if not wrapper:
            reading_a(diff)
            return
        # B when the published reference is the inner reference itself; A when
        # the published target is again a reference / wrapper (the rendering of
        # this very schema under its own name); B otherwise (inner reference
        # published under a disambiguated name)
        if s["allOf"][0]["$ref"] == p["$ref"]:
            reading_b(diff)
        elif "$ref" in pt or "allOf" in pt:
            reading_a(diff)
        else:
            reading_b(diff)
        return

    # the unit type: F5
    if s.get("type") == "null" and p.get("type") == "string" and p.get("enum") == [None]:
        diff.add("unit-type", "type", ptr, {"type": "null"}, {"type": "string", "enum": [None]}, flags)
        sk = set(skip) | {"type", "enum"}
    else:
        sk = set(skip)

    for k, v in s.items():
        if k in sk:
            continue
        if k in FALSE_IS_ABSENT and v is False:
            continue
        if k in ANNOTATIONS or k.startswith("x-"):
            if k not in p:
                diff.add("dropped", k, ptr, v, None, flags)
            elif not json_eq(v, p[k]):
                diff.add("altered", k, ptr, v, p[k], flags)
        elif k == "const" and "const" not in p and "enum" in p:
            # known syntactic mapping: OpenAPI 3.0 has no `const`; a one-value enum says the same
            if not (len(p["enum"]) == 1 and json_eq(v, p["enum"][0])):
                diff.add("altered", k, ptr, v, {"enum": p["enum"]}, flags)
        elif k in SIMPLE_CONSTRAINTS:
            if k not in p:
                diff.add("dropped", k, ptr, v, None, flags)
            elif not json_eq(v, p[k]):
                diff.add("altered", k, ptr, v, p[k], flags)
        elif k == "enum":
            if "enum" not in p:
                diff.add("dropped", k, ptr, v, None, flags)
            else:
                pv = p["enum"]
                same = len(v) == len(pv) and all(any(json_eq(a, b) for b in pv) for a in v) and \
                    all(any(json_eq(a, b) for a in v) for b in pv)
                if not same:
                    diff.add("altered", k, ptr, v, pv, flags)
        elif k == "required":
            if set(v) != set(p.get("required", [])):
                diff.add("dropped" if "required" not in p else "altered", k, ptr, v, p.get("required"), flags)
        elif k in ("minimum", "exclusiveMinimum"):
            sb, pb = lower_bound(s), lower_bound(p)
            if pb is None:
                diff.add("dropped", k, ptr, v, None, flags)
            elif sb is not None and (sb[0] != pb[0] or sb[1] != pb[1]):
                diff.add("altered", k, ptr, {"bound": sb[0], "exclusive": sb[1]},
                         {"bound": pb[0], "exclusive": pb[1]}, flags)
        elif k in ("maximum", "exclusiveMaximum"):
            sb, pb = upper_bound(s), upper_bound(p)
            if pb is None:
                diff.add("dropped", k, ptr, v, None, flags)
            elif sb is not None and (sb[0] != pb[0] or sb[1] != pb[1]):
                diff.add("altered", k, ptr, {"bound": sb[0], "exclusive": sb[1]},
                         {"bound": pb[0], "exclusive": pb[1]}, flags)
        elif k == "properties":
            pp = p.get("properties")
            if not isinstance(pp, dict):
                if v:
                    diff.add("dropped", k, ptr, sorted(v), None, flags)
                continue
            for name, sub in v.items():
                if name not in pp:
                    diff.add("dropped", "properties", ptr + "/properties/" + name, sub, None, flags)
                else:
                    compare(sctx, pctx, sub, pp[name], diff, ptr + "/properties/" + name, flags, frozenset(), depth + 1)
        elif k in ("items", "not"):
            if k not in p:
                if v is not True and v != {}:
                    diff.add("dropped", k, ptr, v, None, flags)
            else:
                compare(sctx, pctx, v, p[k], diff, ptr + "/" + k, flags, frozenset(), depth + 1)
        elif k == "additionalProperties":
            if k not in p:
                if v is not True and v != {}:
                    diff.add("dropped", k, ptr, v, None, flags)
            elif isinstance(v, bool) or isinstance(p[k], bool):
                a = True if v == {} else v
                b = True if p[k] == {} else p[k]
                if a is not b:
                    diff.add("altered", k, ptr, v, p[k], flags)
            else:
                compare(sctx, pctx, v, p[k], diff, ptr + "/" + k, flags, frozenset(), depth + 1)
        elif k in ("allOf", "anyOf", "oneOf"):
            if k not in p:
                diff.add("dropped", k, ptr, v, None, flags)
            elif len(v) != len(p[k]):
                diff.add("altered", k, ptr, "%d subschemas" % len(v), "%d subschemas" % len(p[k]), flags)
            else:
                for i, (a, b) in enumerate(zip(v, p[k])):
                    compare(sctx, pctx, a, b, diff, "%s/%s/%d" % (ptr, k, i), flags, frozenset(), depth + 1)
        # anything else is not part of the property's keyword list
    for k in p:
        if k in CONSTRAINT_KEYS and k not in s and k not in sk:
            if k in FALSE_IS_ABSENT and p[k] is False:
                continue
            if k == "exclusiveMinimum" and "minimum" in p and lower_bound(s) is not None:
                continue
            if k == "exclusiveMaximum" and "maximum" in p and upper_bound(s) is not None:
                continue
            if k == "enum" and "const" in s:
                continue
            if k == "minimum" and "exclusiveMinimum" in s:
                continue
            if k == "maximum" and "exclusiveMaximum" in s:
                continue
            diff.added.append({"keyword": k, "pointer": ptr or "/", "published": p[k]})
