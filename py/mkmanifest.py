#!/usr/bin/env python3
"""Regenerate /verif/MANIFEST.json from py/props.py (single source of truth)."""
import json, os, sys
VERIF = os.path.dirname(os.path.dirname(os.path.abspath(__file__)))
sys.path.insert(0, os.path.join(VERIF, "py"))
from props import PROPS, NOT_APPLICABLE, ENGINES_DOC, HOOK_COMMITS

ALL = [json.loads(l)["id"] for l in open(os.path.join(VERIF, "properties.jsonl"))]
BASE = json.load(open("/root/.vp/BASELINE.json"))["cmd"] if os.path.exists("/root/.vp/BASELINE.json") else "cd /repo && cargo test --workspace --no-fail-fast --offline"

checks = []
for pid in ALL:
    if pid not in PROPS:
        continue
    p = PROPS[pid]
    checks.append({
        "property_id": pid,
        "quick_cmd": f"bin/check {pid} quick",
        "thorough_cmd": f"bin/check {pid} thorough",
        "evidence_file": f"/verif/evidence/{pid}.json",
        "replay_cmd_template": f"bin/check {pid} --replay {{path}}",
        "engine": ", ".join(e["name"] for e in p["engines"]),
        "level_claimed": {"category": p["level"], "text": p["level_text"], "design_ref": p["design_ref"]},
        "level_note": p["level_note"],
        "technique": p["technique"],
    })
na = [{"property_id": pid, "reason": NOT_APPLICABLE.get(pid, "check not built yet in this round; see DESIGN.md §6 for the planned monitor")}
      for pid in ALL if pid not in PROPS]
m = {
    "version": 1,
    "setup_cmd": "bin/setup",
    "hooks": {
        "guard": "--cfg dropshot_verif",
        "enable": "harness/.cargo/config.toml passes --cfg dropshot_verif to every crate the checks build (RUSTFLAGS); no source hooks are needed at present, every event is observed at the public boundary",
        "baseline_off_cmd": BASE,
        "source_commits": HOOK_COMMITS,
        "add_only": True,
    },
    "engines": ENGINES_DOC,
    "checks": checks,
    "not_applicable": na,
    "notes": "Runtime monitoring only. bin/check <ID> <tier> rebuilds harness/ against /repo's working tree, runs the engines of py/props.py, applies known_findings.json and writes evidence/<ID>.json. Exit 2 + INCONCLUSIVE means the check itself could not run (build failure, engine crash, coverage floor not met) and is never a verdict.",
}
json.dump(m, open(os.path.join(VERIF, "MANIFEST.json"), "w"), indent=1)
print(f"MANIFEST.json: {len(checks)} checks, {len(na)} not_applicable")
