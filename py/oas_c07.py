#!/usr/bin/env python3-vt
"""C07 engine: "The OpenAPI document tells the truth about requests and responses".

Starts the API zoo (`vmon_oas c07-zoo-serve`, real dropshot server on
loopback), then replays the PUBLISHED document against it.  Everything here is
driven by the document alone:

  positive   request built from the documented path, all parameters marked
             required (for paginated operations also those the
             `x-dropshot-pagination` extension lists as required, no page token),
             optional ones sometimes, a body valid for the documented schema and
             content type  ->  must not be refused; status, content type and body
             must be what the document lists for that status (operations tagged
             `framework-5xx-on-demand` may answer 5xx when the request asks for an
             unserialisable response: that body must be the documented 5XX schema)
  follow-up  paginated operations: the `next_page` token of a response sent back
  negative   one `required: true` query parameter omitted  ->  must be 4xx
  errors     framework-generated errors (404, 405, malformed body, missing
             parameter) -> body valid against the documented error schema

Unknown `format` => that case is inconclusive.  Validator: python jsonschema
Draft4 + `nullable` + format checks for the formats dropshot/schemars emit.

usage: oas_c07.py --seed N --tier quick|thorough --out FILE [--procs N]
"""
import http.client
import json
import multiprocessing
import os
import random
import subprocess
import sys
import tempfile
import time
import urllib.parse

sys.path.insert(0, os.path.dirname(os.path.abspath(__file__)))
from jsonschema import FormatChecker  # noqa: E402
from oas_report import Report, oas_binary, parse_args  # noqa: E402
from oas_schema import INT_FORMATS, Ctx, Gen, normalise_numbers  # noqa: E402

PROP = "C07"
ENGINE = "c07-zoo-replay"
RULE = ("API zoo (72 operations: every extractor combination and response kind) served by the real dropshot "
        "server; per operation N positive requests built only from the published document, pagination follow-ups, "
        "one negative per required query parameter, malformed bodies, 404/405; class = (operationId, request "
        "variant, response status)")

F32_LIMIT = 3.4028235677973366e38
KNOWN_FORMATS = set(INT_FORMATS) | {"float", "double", "uuid", "date-time", "date", "ip", "ipv4", "ipv6", "binary",
                                    "byte", "password", "partial-date-time", "uri", "email"}

# expected findings live in tagged classes: (class tag, violation kind) -> specific signature
CLASS_SIGS = {
    ("flattened-untagged-enum-query", "valid-request-refused"):
        "C07:flattened-untagged-enum-query-params-documented-optional",
    ("flattened-typed-query", "valid-request-refused"):
        "C07:flattened-query-struct-non-string-member-refused",
    ("unit-response", "response-body-invalid"):
        "C07:unit-response-null-invalid-for-published-schema",
    ("option-of-reference-response", "response-body-invalid"):
        "C07:optional-reference-response-null-not-documented",
}


def make_format_checker():
    fc = FormatChecker(formats=())
    import ipaddress
    import re
    import uuid

    def ints(name, lo, hi):
        @fc.checks(name)
        def _c(v, lo=lo, hi=hi):
            if isinstance(v, bool) or not isinstance(v, int):
                return True
            return lo <= v <= hi
    for name, (lo, hi) in INT_FORMATS.items():
        ints(name, lo, hi)

    @fc.checks("float")
    def _f(v):
        if isinstance(v, bool) or not isinstance(v, (int, float)):
            return True
        return abs(v) <= F32_LIMIT

    @fc.checks("double")
    def _d(v):
        if isinstance(v, bool) or not isinstance(v, (int, float)):
            return True
        return abs(v) <= 1.7976931348623157e308

    @fc.checks("uuid")
    def _u(v):
        if not isinstance(v, str):
            return True
        try:
            uuid.UUID(v)
            return True
        except ValueError:
            return False

    rx_dt = re.compile(r"^\d{4}-\d{2}-\d{2}[Tt ]\d{2}:\d{2}:\d{2}(\.\d+)?([Zz]|[+-]\d{2}:\d{2})$")

    @fc.checks("date-time")
    def _dt(v):
        return not isinstance(v, str) or bool(rx_dt.match(v))

    def ip(name, cls):
        @fc.checks(name)
        def _c(v, cls=cls):
            if not isinstance(v, str):
                return True
            try:
                cls(v)
                return True
            except ValueError:
                return False
    ip("ip", ipaddress.ip_address)
    ip("ipv4", ipaddress.IPv4Address)
    ip("ipv6", ipaddress.IPv6Address)
    return fc


FC = make_format_checker()


def formats_in(ctx, node, seen=None, out=None, depth=0):
    """all `format` values reachable from node"""
    if out is None:
        out, seen = set(), set()
    if depth > 50:
        return out
    if isinstance(node, dict):
        r = node.get("$ref")
        if isinstance(r, str):
            if r in seen:
                return out
            seen.add(r)
            t, _ = ctx.resolve(node, 1)
            formats_in(ctx, t, seen, out, depth + 1)
            return out
        if isinstance(node.get("format"), str):
            out.add(node["format"])
        for k, v in node.items():
            if k in ("properties",) and isinstance(v, dict):
                for s in v.values():
                    formats_in(ctx, s, seen, out, depth + 1)
            elif k in ("items", "additionalProperties", "not"):
                formats_in(ctx, v, seen, out, depth + 1)
            elif k in ("allOf", "anyOf", "oneOf") and isinstance(v, list):
                for s in v:
                    formats_in(ctx, s, seen, out, depth + 1)
    return out


def scalar_to_text(v):
    if v is True:
        return "true"
    if v is False:
        return "false"
    if isinstance(v, float):
        return repr(v)
    return str(v)


class Op:
    def __init__(self, doc, path, method, op):
        self.doc = doc
        self.path = path
        self.method = method.upper()
        self.op = op
        self.id = op.get("operationId", method + " " + path)
        self.comps = (doc.get("components") or {}).get("schemas") or {}
        tags = op.get("tags") or ["untagged"]
        self.cls = None
        for t in tags:
            if t.startswith("class:"):
                self.cls = t[len("class:"):]
        self.tag = self.cls or tags[0]
        self.params = op.get("parameters", [])
        self.pagination = op.get("x-dropshot-pagination")
        rb = op.get("requestBody")
        self.body_ct = None
        self.body_schema = None
        if rb:
            (self.body_ct, media), = list(rb.get("content", {}).items())[:1]
            self.body_schema = media.get("schema", {})
        self.responses = op.get("responses", {})

    def response_for(self, status):
        r = self.responses.get(str(status))
        if r is None:
            r = self.responses.get("%dXX" % (status // 100))
        if r is None:
            r = self.responses.get("default")
        if r is not None and "$ref" in r:
            name = r["$ref"].rsplit("/", 1)[1]
            r = (self.doc.get("components") or {}).get("responses", {}).get(name)
        return r

    def explicit_success(self):
        return sorted(k for k in self.responses if k.isdigit())


class Client:
    def __init__(self, port):
        self.port = port
        self.conn = None

    def request(self, method, target, body=None, headers=None):
        last = None
        for attempt in range(3):
            try:
                if self.conn is None:
                    self.conn = http.client.HTTPConnection("127.0.0.1", self.port, timeout=30)
                self.sent = getattr(self, "sent", 0) + 1
                if isinstance(body, (bytes, bytearray)) and len(body) >= 2 and self.sent % 3 == 2:
                    # every third body goes out with chunked transfer coding, in 2-4 chunks: a
                    # framing the document says nothing about and the server must accept
                    n = 2 + self.sent % 3
                    step = max(1, -(-len(body) // n))
                    pieces = [bytes(body[i:i + step]) for i in range(0, len(body), step)]
                    h = {k: v for k, v in (headers or {}).items() if k.lower() != "content-length"}
                    h["Transfer-Encoding"] = "chunked"
                    self.conn.request(method, target, body=iter(pieces), headers=h, encode_chunked=True)
                else:
                    self.conn.request(method, target, body=body, headers=headers or {})
                r = self.conn.getresponse()
                data = r.read()
                hdrs = {}
                for k, v in r.getheaders():
                    hdrs.setdefault(k.lower(), []).append(v)
                if r.will_close:
                    self.conn.close()
                    self.conn = None
                return r.status, hdrs, data
            except (OSError, http.client.HTTPException) as e:
                last = e
                try:
                    if self.conn:
                        self.conn.close()
                finally:
                    self.conn = None
        raise IOError("request failed: %r" % (last,))


class Replayer:
    def __init__(self, rep, op, port, seed):
        self.rep = rep
        self.op = op
        self.client = Client(port)
        self.seed = seed

    # ---- signatures
    def violate(self, kind, wit):
        op = self.op
        sig = CLASS_SIGS.get((op.cls, kind))
        if sig is None:
            sig = "C07:%s:%s" % (kind, op.tag)
        wit = dict(wit, operation=op.id, method=op.method, path=op.path)
        self.rep.violate(sig, wit)

    # ---- value generation
    def gen_valid(self, rng, schema, what, tries=8, non_null=False, extras=False):
        # extras=False: no properties the schema does not name.  The schema allows them when
        # additionalProperties is absent, but whether serde accepts them is schemars' and
        # serde's business (aliases, adjacently tagged content keys ...): not unambiguous.
        """a value valid for `schema` per the independent validator, or None + reason"""
        ctx = Ctx(schema, self.op.comps, 4, format_checker=FC)
        unknown = formats_in(ctx, schema) - KNOWN_FORMATS
        if unknown:
            return None, "unknown format %s" % sorted(unknown)[0]
        g = Gen(rng, ctx, honour_formats=True, max_depth=12, extras=extras)
        for _ in range(tries):
            v = g.gen(schema)
            if g.unknown_formats:
                return None, "unknown format/pattern %s" % sorted(g.unknown_formats)[0]
            if non_null and v is None:
                continue
            if ctx.valid(v):
                return (v,), None
        return None, "generator produced no valid %s" % what

    def build(self, rng, omit=None, token=None):
        """(target, body, headers, description) or (None, reason)"""
        op = self.op
        path = op.path
        query = []
        desc = {"params": {}, "omitted": omit}
        pag_required = set((op.pagination or {}).get("required", [])) if op.pagination else set()
        for p in op.params:
            name, where = p["name"], p["in"]
            schema = p.get("schema", {})
            if where == "path":
                for _ in range(20):
                    got, why = self.gen_valid(rng, schema, "path parameter", non_null=True)
                    if got is None:
                        return None, why
                    text = scalar_to_text(got[0])
                    # unambiguous path segments only: non-empty, no dot-segments (C03's business)
                    if text and text not in (".", ".."):
                        break
                else:
                    return None, "no usable path parameter value"
                desc["params"][name] = got[0]
                path = path.replace("{%s}" % name, urllib.parse.quote(text, safe=""))
                continue
            if where != "query":
                return None, "parameter location %s not handled" % where
            if name == omit:
                continue
            if token is not None:
                # follow-up page: the token alone (plus, sometimes, the limit)
                if name == "page_token":
                    query.append((name, token))
                    desc["params"][name] = token
                    continue
                if name != "limit" or rng.random() < 0.5:
                    continue
            elif op.pagination and name == "page_token":
                continue  # validity of an invented token is not expressible in the document
            required = bool(p.get("required")) or name in pag_required
            if not required and rng.random() < 0.5:
                continue
            got, why = self.gen_valid(rng, schema, "query parameter", non_null=True)
            if got is None:
                if required:
                    return None, why
                continue
            desc["params"][name] = got[0]
            query.append((name, scalar_to_text(got[0])))
        rng.shuffle(query)
        target = path
        if query:
            target += "?" + urllib.parse.urlencode(query, quote_via=urllib.parse.quote)
        headers = {"x-vmon-seed": str(rng.getrandbits(63))}
        body = None
        if op.body_ct is not None:
            ct = op.body_ct
            if ct == "application/json":
                got, why = self.gen_valid(rng, op.body_schema, "body")
                if got is None:
                    return None, why
                desc["body"] = got[0]
                body = json.dumps(got[0], ensure_ascii=rng.random() < 0.5).encode()
                headers["content-type"] = rng.choice(("application/json", "application/json; charset=utf-8"))
            elif ct == "application/x-www-form-urlencoded":
                got, why = self.gen_valid(rng, op.body_schema, "body", non_null=True, extras=False)
                if got is None:
                    return None, why
                if not isinstance(got[0], dict) or any(isinstance(v, (dict, list)) for v in got[0].values()):
                    return None, "urlencoded body is not a flat object"
                desc["body"] = got[0]
                pairs = [(k, scalar_to_text(v)) for k, v in got[0].items() if v is not None]
                body = urllib.parse.urlencode(pairs, quote_via=urllib.parse.quote).encode()
                headers["content-type"] = ct
            elif ct == "application/octet-stream":
                body = bytes(rng.getrandbits(8) for _ in range(rng.choice((0, 1, 17, 300, 2000))))
                desc["body_len"] = len(body)
                headers["content-type"] = ct
            elif ct == "multipart/form-data":
                boundary = "vmonBoundary%d" % rng.getrandbits(40)
                parts = []
                for i in range(rng.randint(0, 3)):
                    parts.append(("--%s\r\nContent-Disposition: form-data; name=\"f%d\"\r\n\r\n" % (boundary, i)).encode()
                                 + bytes(rng.choice(b"abcxyz 0123") for _ in range(rng.randint(0, 40))) + b"\r\n")
                body = b"".join(parts) + ("--%s--\r\n" % boundary).encode()
                desc["body_len"] = len(body)
                headers["content-type"] = "multipart/form-data; boundary=%s" % boundary
            else:
                return None, "request content type %s not handled" % ct
        if body is None and op.method in ("POST", "PUT", "PATCH"):
            headers["content-length"] = "0"
        return (target, body, headers, desc), None

    # ---- response checks
    def check_response(self, variant, status, hdrs, data, desc):
        """status / content type / body against the document"""
        op, rep = self.op, self.rep
        r = op.response_for(status)
        explicit = str(status) in op.responses
        if r is None or (not explicit and "default" not in op.responses and status < 400):
            self.violate("undocumented-status", {"variant": variant, "status": status,
                                                 "documented": sorted(op.responses), "request": desc})
            return
        content = r.get("content") or {}
        ctype = (hdrs.get("content-type") or [""])[0].split(";")[0].strip().lower()
        if not content:
            if data:
                self.violate("undocumented-content", {"variant": variant, "status": status, "content_type": ctype,
                                                      "body": data[:200].decode("latin-1"), "request": desc})
            return
        media = content.get(ctype)
        if media is None:
            media = content.get("*/*")
        if media is None:
            self.violate("undocumented-content-type", {"variant": variant, "status": status, "content_type": ctype,
                                                       "documented": sorted(content), "request": desc})
            return
        schema = media.get("schema")
        if schema is None or ctype != "application/json":
            return
        try:
            value = json.loads(data.decode("utf-8"))
        except (ValueError, UnicodeDecodeError) as e:
            self.violate("response-body-invalid", {"variant": variant, "status": status, "why": "not JSON: %s" % e,
                                                   "body": data[:200].decode("latin-1"), "request": desc})
            return
        ctx = Ctx(schema, op.comps, 4, format_checker=FC)
        unknown = formats_in(ctx, schema) - KNOWN_FORMATS
        if unknown:
            rep.inconclusive("response schema uses unknown format %s" % sorted(unknown)[0])
            return
        ok = ctx.valid(value)
        if ok is None:
            rep.inconclusive("validator recursion limit on a response")
        elif not ok:
            kind = "response-body-invalid" if status < 400 else "framework-error-body-invalid"
            self.violate(kind, {"variant": variant, "status": status, "body": value, "schema": schema,
                                "errors": ctx.errors(value), "request": desc})
        # documented response headers: not part of the property text => counted only
        for hname, h in (r.get("headers") or {}).items():
            if h.get("required") and hname.lower() not in hdrs:
                rep.count("documented_required_response_header_missing")
            elif hname.lower() in hdrs:
                rep.count("documented_response_header_seen")

    def send(self, built):
        target, body, headers, desc = built
        try:
            return self.client.request(self.op.method, target, body, headers)
        except IOError as e:
            self.rep.inconclusive("harness I/O trouble: %s" % str(e)[:60])
            return None

    def positive(self, rng, i):
        op, rep = self.op, self.rep
        built, why = self.build(rng)
        if built is None:
            rep.inconclusive("positive request not built: " + why)
            return
        res = self.send(built)
        if res is None:
            return
        status, hdrs, data = res
        desc = dict(built[3], target=built[0])
        rep.eval("%s|positive|%d" % (op.id, status))
        rep.count("requests_positive")
        if rep.want_sample() and i == 0:
            rep.sample({"operation": op.id, "request": "%s %s" % (op.method, built[0][:200]), "status": status})
        if status >= 400:
            # Operations tagged `framework-5xx-on-demand` document a parameter with which a valid
            # request asks for a response value the framework cannot serialise: there a 5xx is the
            # framework's legitimate answer, not a refusal.  Every other 4xx/5xx refuses a valid request.
            on_demand = op.cls == "framework-5xx-on-demand" and status >= 500
            if on_demand:
                rep.count("framework_5xx_on_demand_seen")
            else:
                self.violate("valid-request-refused", {"status": status, "body": data[:300].decode("latin-1"),
                                                       "request": desc,
                                                       "content_type": built[2].get("content-type")})
            # whoever raised it, the error body must be what the document lists for that status
            self.check_response("positive-error", status, hdrs, data, desc)
            return
        self.check_response("positive", status, hdrs, data, desc)
        # pagination follow-up with the token the server issued
        if op.pagination and status == 200:
            try:
                token = json.loads(data).get("next_page")
            except (ValueError, AttributeError):
                token = None
            if isinstance(token, str):
                b2, why = self.build(rng, token=token)
                if b2 is None:
                    rep.inconclusive("follow-up request not built: " + why)
                    return
                res = self.send(b2)
                if res is None:
                    return
                s2, h2, d2 = res
                desc2 = dict(b2[3], target=b2[0])
                rep.eval("%s|next-page|%d" % (op.id, s2))
                rep.count("requests_next_page")
                if s2 >= 400:
                    self.violate("valid-request-refused", {"status": s2, "body": d2[:300].decode("latin-1"),
                                                           "request": desc2, "variant": "issued page token sent back"})
                else:
                    self.check_response("next-page", s2, h2, d2, desc2)

    def negatives(self, rng, rounds):
        op, rep = self.op, self.rep
        for p in op.params:
            if p["in"] != "query" or not p.get("required"):
                continue
            for _ in range(rounds):
                built, why = self.build(rng, omit=p["name"])
                if built is None:
                    rep.inconclusive("negative request not built: " + why)
                    continue
                res = self.send(built)
                if res is None:
                    continue
                status, hdrs, data = res
                desc = dict(built[3], target=built[0])
                rep.eval("%s|omit-required|%d" % (op.id, status))
                rep.count("requests_negative")
                if not 400 <= status < 500:
                    self.violate("missing-required-parameter-not-refused",
                                 {"omitted": p["name"], "status": status, "request": desc})
                else:
                    self.check_response("omit-required", status, hdrs, data, desc)

    def malformed_bodies(self, rng, rounds):
        op, rep = self.op, self.rep
        if op.body_ct != "application/json":
            return
        for k in range(rounds):
            built, why = self.build(rng)
            if built is None:
                rep.inconclusive("malformed-body request not built: " + why)
                continue
            target, body, headers, desc = built
            bad = rng.choice((body[:max(1, len(body) // 2)] + b"\x00{", b"{\"a\":", b"[1,,2]", b"\xff\xfe", b"nul"))
            res = self.send((target, bad, headers, desc))
            if res is None:
                continue
            status, hdrs, data = res
            rep.eval("%s|malformed-body|%d" % (op.id, status))
            rep.count("requests_malformed_body")
            if status >= 400:
                self.check_response("malformed-body", status, hdrs, data, {"target": target, "body": repr(bad[:80])})
            else:
                # whether garbage is refused is C10's question; here only error bodies are judged
                rep.count("malformed_body_not_refused")


def worker(task):
    kind, port, doc_path, seed, arg = task
    rep = Report(PROP, ENGINE, RULE)
    doc = normalise_numbers(json.load(open(doc_path)))
    if kind == "op":
        path, method, lo, hi, with_extras = arg
        op = Op(doc, path, method, doc["paths"][path][method])
        rp = Replayer(rep, op, port, seed)
        for i in range(lo, hi):
            rng = random.Random("%s|%s|pos|%d" % (seed, op.id, i))
            rp.positive(rng, i)
        if with_extras:
            rng = random.Random("%s|%s|neg" % (seed, op.id))
            rp.negatives(rng, with_extras)
            rp.malformed_bodies(rng, with_extras)
    else:
        framework_errors(rep, doc, port, seed, arg)
    return rep


def framework_errors(rep, doc, port, seed, rounds):
    """404 / 405 from the router: validated against #/components/responses/Error"""
    comps = (doc.get("components") or {}).get("schemas") or {}
    err = (doc.get("components") or {}).get("responses", {}).get("Error")
    if err is None:
        rep.inconclusive("document has no #/components/responses/Error")
        return
    schema = err["content"]["application/json"]["schema"]
    ctx = Ctx(schema, comps, 4, format_checker=FC)
    client = Client(port)
    rng = random.Random("%s|framework" % seed)
    paths = list(doc["paths"].items())
    for _ in range(rounds):
        if rng.random() < 0.5:
            method, target, variant = rng.choice(("GET", "POST", "PUT", "DELETE")), \
                "/zoo/nothing-here-%d/%s" % (rng.getrandbits(30), rng.choice(("", "x", "a/b"))), "unknown-path"
            expect = 404
        else:
            path, item = rng.choice(paths)
            unused = [m for m in ("GET", "POST", "PUT", "DELETE", "PATCH") if m.lower() not in item]
            if not unused or "{" in path:
                continue
            method, target, variant, expect = rng.choice(unused), path, "unserved-method", 405
        try:
            headers = {"content-length": "0"} if method in ("POST", "PUT", "PATCH") else {}
            status, hdrs, data = client.request(method, target, None, headers)
        except IOError as e:
            rep.inconclusive("harness I/O trouble: %s" % str(e)[:60])
            continue
        rep.eval("router|%s|%d" % (variant, status))
        rep.count("requests_router_errors")
        if status < 400:
            rep.violate("C07:undocumented-path-or-method-served",
                        {"request": "%s %s" % (method, target), "status": status})
            continue
        ctype = (hdrs.get("content-type") or [""])[0].split(";")[0].strip().lower()
        try:
            value = json.loads(data.decode("utf-8"))
            ok = ctype == "application/json" and ctx.valid(value)
        except (ValueError, UnicodeDecodeError):
            value, ok = data[:200].decode("latin-1"), False
        if not ok:
            rep.violate("C07:framework-error-body-invalid:router",
                        {"request": "%s %s" % (method, target), "status": status, "content_type": ctype,
                         "body": value, "schema": schema, "expected_status": expect})


def run_against(rep, a, binpath, serve_cmd, n_pos, chunk, extras, router_rounds):
    fd, doc_path = tempfile.mkstemp(prefix="oas_c07_doc_", suffix=".json")
    os.close(fd)
    srv = subprocess.Popen([binpath, serve_cmd, "--doc", doc_path, "--workers", "8"],
                           stdin=subprocess.PIPE, stdout=subprocess.PIPE, stderr=subprocess.PIPE, text=True)
    try:
        port = None
        for _ in range(2):
            line = srv.stdout.readline().strip()
            if line.startswith("PORT "):
                port = int(line.split()[1])
        if port is None:
            sys.stderr.write("%s did not start: %s\n" % (serve_cmd, srv.stderr.read()[-2000:]))
            sys.exit(2)
        doc = json.load(open(doc_path))
        tasks = []
        nops = 0
        for path, item in sorted(doc["paths"].items()):
            for method, op in sorted(item.items()):
                if method not in ("get", "put", "post", "delete", "patch", "options"):
                    continue
                nops += 1
                for lo in range(0, n_pos, chunk):
                    tasks.append(("op", port, doc_path, a["seed"],
                                  (path, method, lo, min(n_pos, lo + chunk), extras if lo == 0 else 0)))
        tasks.append(("router", port, doc_path, a["seed"], router_rounds))
        rep.count("operations", nops)
        rep.count("operations:%s" % serve_cmd, nops)
        with multiprocessing.Pool(a["procs"]) as pool:
            for r in pool.imap_unordered(worker, tasks):
                rep.merge(r)
        alive = srv.poll() is None
        if not alive:
            rep.inconclusive("zoo server exited during the run (exit %s)" % srv.returncode)
    finally:
        try:
            srv.stdin.close()
            srv.wait(timeout=20)
        except Exception:
            srv.kill()
        try:
            os.unlink(doc_path)
        except OSError:
            pass


def main():
    sys.setrecursionlimit(20000)
    a = parse_args(sys.argv[1:])
    t0 = time.time()
    binpath = oas_binary()
    quick = a["tier"] == "quick"
    n_pos, chunk, extras, router_rounds = (200, 50, 6, 400) if quick else (4000, 250, 40, 8000)
    rep = Report(PROP, ENGINE, RULE)
    # two servers: the function-based zoo, and a trait-based API whose document comes from
    # the STUB description while the server is built from the implementation
    for serve_cmd, scale in (("c07-zoo-serve", 1.0), ("c07-trait-serve", 2.0)):
        run_against(rep, a, binpath, serve_cmd, int(n_pos * scale), chunk, extras, router_rounds if serve_cmd == "c07-zoo-serve" else router_rounds // 8)
    rep.write(a["out"], a["seed"], a["tier"], t0)


if __name__ == "__main__":
    main()
