#!/usr/bin/env python3
"""miri_engine.py <PROP> <inner-engine> <seed> <out>

E6: run a socket-free vmon engine at tiny volume inside the Miri interpreter
(undefined-behaviour and data-race detector).  A Miri UB report is a violation
of <PROP> with the report as witness; the inner engine's own verdicts count too.
"""
import json, os, re, subprocess, sys, time

VERIF = os.path.dirname(os.path.dirname(os.path.abspath(__file__)))
HARNESS = os.environ.get("VERIF_HARNESS") or os.path.join(VERIF, "harness")
TARGET = os.path.join(HARNESS, "target-miri")


def main():
    prop, inner, seed, out = sys.argv[1:5]
    t0 = time.time()
    inner_out = out + ".inner"
    env = dict(os.environ, CARGO_NET_OFFLINE="true", CARGO_TARGET_DIR=TARGET,
               # Tree Borrows: the (also experimental) aliasing model that accepts the
               # pointer-offset idiom of the pinned ryu 1.0.5, which Stacked Borrows flags
               # inside serde_json float printing (not dropshot code)
               MIRIFLAGS="-Zmiri-disable-isolation -Zmiri-ignore-leaks -Zmiri-tree-borrows")
    env.pop("RUSTFLAGS", None)
    try:
        p = subprocess.run(["cargo", "+nightly", "miri", "run", "--offline", "-q", "-p", "vmon", "--bin", "vmon", "--",
                            inner, "--tier", "miri", "--seed", seed, "--out", inner_out, "--threads", "1"],
                           cwd=HARNESS, env=env, stdout=subprocess.PIPE, stderr=subprocess.PIPE, text=True, errors="replace", timeout=3000)
    except subprocess.TimeoutExpired:
        sys.stderr.write("miri run hit its watchdog\n")
        return 3
    stderr = p.stderr
    ub = re.findall(r"error: (Undefined Behavior[^\n]*|unsupported operation[^\n]*|[^\n]*data race[^\n]*)", stderr)
    rep = {"property": prop, "engine": f"miri:{inner}", "rule": f"the {inner} workload at tiny volume interpreted by Miri "
           "(-Zmiri-disable-isolation): real register / lookup_route / openapi / semver code incl. dependencies' unsafe code; "
           "classes are those of the inner workload",
           "evaluations": 0, "distinct_nontrivial": 0, "samples": [], "violations": [], "inconclusive": {}, "counters": {},
           "extra": {"tool": "Miri (cargo +nightly miri run)", "ub_reports": 0}, "exhaustive": None}
    if os.path.exists(inner_out):
        inner_rep = json.load(open(inner_out))
        os.unlink(inner_out)
        for k in ("evaluations", "distinct_nontrivial", "samples", "violations", "inconclusive", "counters"):
            rep[k] = inner_rep[k]
        rep["samples"] = rep["samples"][:2]
    real_ub = [u for u in ub if not u.startswith("unsupported operation")]
    if real_ub:
        head = stderr[stderr.index("error:"):][:3000]
        rep["violations"].append({"sig": f"{prop}:miri-undefined-behaviour", "count": len(real_ub),
                                  "details": [{"tool": "miri", "inner_engine": inner, "seed": int(seed), "report": head}]})
        rep["extra"]["ub_reports"] = len(real_ub)
    elif p.returncode != 0 or rep["evaluations"] == 0:
        # unsupported operation, build failure, ...: not a verdict
        sys.stderr.write(f"miri run of {inner} exited {p.returncode}:\n{stderr[-2500:]}")
        return 4
    rep["wall_s"] = time.time() - t0
    rep["seed"] = int(seed)
    rep["tier"] = "thorough"
    json.dump(rep, open(out, "w"), indent=1)
    return 0


if __name__ == "__main__":
    sys.exit(main())
