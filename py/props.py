"""Registry: which engines decide which property (read by bin/check and mkmanifest)."""

ASSUME_COMMON = [
    "reference models (semver precedence, range algebra, path normaliser, template matcher) are written from the property text and RFCs and are themselves correct",
    "the harness is built with overflow-checks and debug-assertions on; a release build without them may behave differently on arithmetic overflow",
]

HOOK_COMMITS = []

NOT_APPLICABLE = {}

ENGINES_DOC = [
    {"name": "E1 in-process monitors", "path": "harness/vmon/src", "serves_properties": ["C01", "C02", "C03", "C04", "C05", "C06", "C12", "C13", "C14"],
     "kind_free_text": "real register/lookup_route/openapi/to_result/into_response/token code called in process on generated cases, compared with reference models"},
    {"name": "E2 live-server monitors", "path": "harness/vmon/src", "serves_properties": ["C01", "C03", "C04", "C05", "C09", "C10", "C11", "C12", "C13", "C14", "C15", "C16", "C17", "C18", "C20"],
     "kind_free_text": "real ServerBuilder servers on loopback, raw-socket client with byte-level control, harness handlers writing an event log, offline history checkers"},
]

def asan(prop, inner, package="vmon", binary="vmon"):
    """E6: the quick-volume workload of `inner` repeated under an ASan build (thorough tier only)."""
    return {"name": f"asan:{inner}", "kind": "cmd",
            "cmd": ["python3", "{verif}/py/asan_engine.py", prop, inner, "quick", "{seed}", "{out}", package, binary],
            "tiers": ("thorough",), "optional": True, "timeout_s": 4000}


def miri(prop, inner):
    """E6: a socket-free engine at tiny volume inside the Miri interpreter (thorough tier only)."""
    return {"name": f"miri:{inner}", "kind": "cmd",
            "cmd": ["python3", "{verif}/py/miri_engine.py", prop, inner, "{seed}", "{out}"],
            "tiers": ("thorough",), "optional": True, "timeout_s": 4000, "floor": (1, 2)}


L_EXPL = "held on the executions explored: generated cases compared one by one with an independent reference model; no claim beyond the generated space"

PROPS = {
    "C01": {
        "level": "exploration",
        "design_ref": "§6 C01",
        "level_text": L_EXPL + "; 10^5 (quick) to 10^7 (thorough) lookups over random accepted tables, each registered in several orders",
        "level_note": "trusts the reference matcher/normaliser/semver comparator in harness/vmon/src/model.rs and Debug rendering of VariableSet; tables restricted to the generator grammar",
        "technique": "runtime monitoring: reference-model (independent matcher) comparison of real lookup_route / live dispatch over generated route tables and requests, registration-order permutation",
        "engines": [
            {"name": "c01-router"},
            {"name": "c01-live"},
            miri("C01", "c01-router"),
        ],
        "assumptions": ASSUME_COMMON,
    },
    "C02": {
        "level": "exploration",
        "design_ref": "§6 C02",
        "level_text": L_EXPL + "; every register() verdict in random near-conflict sequences is compared with a 9-rule conflict model, accepted sets are re-offered in other orders, every accepted endpoint is probed for reachability in the real router and every accepted table checked pairwise for model ambiguity",
        "level_note": "parameter-type facts (scalar / non-scalar) come from a hand-annotated corpus of path/query structs; wildcard variables are always bound to Vec<String>; tag policy is only judged on published endpoints; exotic classes (empty range, dot literals) are tagged",
        "technique": "runtime monitoring: conflict reference model vs real register() (Ok/Err/panic via catch_unwind) over generated registration sequences, order permutations, reachability probes",
        "engines": [
            {"name": "c02-registration"},
            miri("C02", "c02-registration"),
        ],
        "assumptions": ASSUME_COMMON,
    },
    "C03": {
        "level": "exploration",
        "design_ref": "§6 C03",
        "level_text": L_EXPL + "; the 12 dot-segment spellings at every position of paths up to length 3 are enumerated exhaustively",
        "level_note": "trusts the own percent-decoder/normaliser; in-process paths are ASCII (non-ASCII bytes always percent-encoded), raw high bytes only in the live engine; c03-h2 sends `:path` values as given (also without a leading slash) with the h2 crate's client",
        "technique": "runtime monitoring: own path normaliser as oracle + metamorphic spelling equivalence + exhaustive dot-segment enumeration against the real router",
        "engines": [
            {"name": "c03-dots"},
            {"name": "c03-spellings"},
            {"name": "c03-router"},
            {"name": "c03-live"},
            {"name": "c03-h2"},
            miri("C03", "c03-spellings"),
        ],
        "assumptions": ASSUME_COMMON,
    },
    "C05": {
        "level": "exploration",
        "design_ref": "§6 C05",
        "level_text": L_EXPL + "; membership and pairwise conflict are enumerated exhaustively over the 14-version universe U (134 ranges, 17 956 ordered pairs), random versions/ranges on top",
        "level_note": "trusts the own semver-precedence comparator and interval algebra (unit-tested against the semver spec's example chain); exhaustive only over U; c05-router adds multi-route tables (wildcard children beside exact routes), route-vs-wildcard-child conflicts are checked in both registration orders",
        "technique": "runtime monitoring: exhaustive + random comparison of real routing/OpenAPI membership and registration conflicts with an own semver/range model; live header-policy probes",
        "engines": [
            {"name": "c05-exhaustive"},
            {"name": "c05-random"},
            {"name": "c05-router"},
            {"name": "c05-live"},
            miri("C05", "c05-random"),
        ],
        "assumptions": ASSUME_COMMON,
    },
    "C09": {
        "level": "exploration",
        "design_ref": "§6 C09",
        "level_text": L_EXPL + "; every response of a concurrent, pipelined, arbitrarily framed workload is compared with the value the client encoded; isolation is judged on uid carried in header, path, query and body plus peer address; the evidence reports the handler concurrency actually observed",
        "level_note": "schedules are those the stress run produced (worker counts 1/2/4/16, seeded handler sleeps); HTTP/2 is driven with hyper's h2 client over cleartext and with tokio-rustls + h2 over TLS/ALPN (no HTTP/2 push, no CONNECT); NaN/infinite floats and multipart epilogues are outside the generated domain",
        "technique": "runtime monitoring: typed echo handlers on a real server + generated values x legal encodings x framings x pipelining, compared at the client boundary; event-log sweep for concurrency and exactly-one entry per request",
        "engines": [
            {"name": "c09-echo"},
            {"name": "c09-tls", "bin": "vmon_tls", "package": "tlsmon"},
            {"name": "c09-tls-h2", "bin": "vmon_tls", "package": "tlsmon"},
            asan("C09", "c09-echo"),
        ],
        "assumptions": ASSUME_COMMON,
    },
    "C10": {
        "level": "exploration",
        "design_ref": "§6 C10",
        "level_text": L_EXPL + "; every generated input is undecodable by construction, so any 2xx/5xx answer, missing response, panic or handler entry (event log) is a refutation with the request bytes as witness",
        "level_note": "only unambiguously invalid classes are generated (borderline numerals such as +5 or 007 are not classed); 'handler never invoked' is judged from H_ENTER events written by the harness handlers",
        "technique": "runtime monitoring: invalid-by-construction requests against a real server, response status/format oracle plus event-log check that no handler entry exists for the request id",
        "engines": [
            {"name": "c10-invalid"},
            asan("C10", "c10-invalid"),
        ],
        "assumptions": ASSUME_COMMON,
    },
    "C11": {
        "level": "exploration",
        "design_ref": "§6 C11",
        "level_text": L_EXPL + "; for each (server default x endpoint override x extractor x body length around/far beyond the limit x framing) the response is compared with the limit model and the byte counts logged by the handlers are bounded offline",
        "level_note": "the limit model is limit = override.unwrap_or(default); 'bytes observed by a handler' are H_BYTES events written by harness handlers after every chunk (streaming / multipart) or once (buffered); HTTP/2 DATA framing is not driven by this check (C09 and C18 drive it); multipart bodies are sent without epilogue",
        "technique": "runtime monitoring: boundary-value body lengths x framings against real servers, response oracle + offline conservation check (max bytes seen by handler <= limit) over the event log",
        "engines": [
            {"name": "c11-limits"},
            asan("C11", "c11-limits"),
        ],
        "assumptions": ASSUME_COMMON,
    },
    "C18": {
        "level": "fault_enumeration",
        "design_ref": "§6 C18",
        "level_text": "fault enumeration: every truncation offset of the request templates (2 in quick, all 7 in thorough) x {FIN, RST, hold} plus thousands of generated malformed / oversized / hostile connections, interleaved with continuous valid traffic; held on the faults injected, no claim about byte strings not generated",
        "level_note": "the strict HTTP/1.1 response grammar in harness/vmon/src/client.rs is the validity oracle; 'malformed' is only asserted for classes malformed by construction (oversized requests and overflowing sizes are judged for liveness and response validity only); answers to an h2 preface are not HTTP/1.1 and only liveness is judged there; thorough repeats the workload under an AddressSanitizer build",
        "technique": "runtime monitoring with fault injection: exhaustive truncation + generated hostile traffic (HTTP/1.1 bytes, HTTP/2 stream resets, unallocatable announced sizes) against real servers in-process and in a watched child process, strict response-grammar oracle, continuous health probes, panic and process-exit monitor; ASan build in thorough",
        "engines": [
            {"name": "c18-hostile"},
            {"name": "c18-proc"},
            {"name": "c18-tls", "bin": "vmon_tls", "package": "tlsmon"},
            asan("C18", "c18-hostile"),
            asan("C18", "c18-proc"),
        ],
        "assumptions": ASSUME_COMMON,
    },
    "C19": {
        "level": "exploration",
        "design_ref": "§6 C19",
        "level_text": L_EXPL + "; 3 (quick) / 60 (thorough) generated programs of ~25 declarations each, every declaration checked in the function, trait+impl and stub ApiDescriptions at 29 versions and on two live servers; 10^4-2*10^5 doc comments and version ranges and 10^3-10^4 attribute sets through the real macro code at run time",
        "level_note": "programs are restricted to the generator grammar (harness/decl/src/spec.rs, docgen.rs); trusts the own semver/range model and the doc-text conservation rule (non-whitespace characters conserved, word boundaries may move only at a line-end hyphen); equal from/until bounds, pre-release/build-metadata literals and declarations the macro refuses at compile time are not judged; compile time bounds the number of compiled programs",
        "technique": "runtime monitoring: generated Rust programs declaring one API three ways, compiled against the tree, documents / route tables / live answers compared with each other and with a generator-side manifest; plus the real dropshot_endpoint code #[path]-included and executed on generated token streams with the emitted builder chain parsed back",
        "engines": [
            {"name": "c19-programs", "bin": "vmon_decl", "package": "decl", "floor": (40, 20)},
            {"name": "c19-macro-rt", "bin": "vmon_macro_rt", "package": "macro_rt", "floor": (10000, 500), "optional": True},
        ],
        "assumptions": ASSUME_COMMON,
    },
    "C07": {
        "level": "exploration",
        "design_ref": "§6 C07",
        "level_text": L_EXPL + "; the published document of a 54-operation API zoo is replayed against the live server: document-derived positives (200 quick / 4000 thorough per operation), pagination follow-ups, omitted-required negatives, framework errors; every response validated against the documented status, content type and schema",
        "level_note": "fixed zoo, no generated programs; trusts python-jsonschema (Draft4 + nullable + dropshot's formats); no undeclared properties are sent; page tokens are only ones the server issued; documented response headers are counted, not judged; wildcard paths and HEAD are not exercised; unknown formats are inconclusive",
        "technique": "runtime monitoring: document-as-specification replay against the running server with an independent JSON-Schema validator",
        "engines": [
            {"name": "c07", "bin": "vmon_oas", "package": "oas", "floor": (5000, 60)},
        ],
        "assumptions": ASSUME_COMMON,
    },
    "C08": {
        "level": "translation_validation",
        "design_ref": "§6 C08",
        "level_text": "translation validation: for every program (corpus type at each legal placement site, or run-time dynamic schema) the schemars openapi3 source schema and the published schema are compared pointer-wise, and judged by independent Draft7/Draft4 validators on generated instances and near-miss mutations; held on the programs and instances explored",
        "level_note": "trusts python-jsonschema; nullable:true is read as 'accepts null' on both sides; dynamic schemas are restricted to the derive-expressible fragment; formats are compared structurally only; known syntactic mappings (exclusive bounds, definitions vs components, const vs one-value enum) are treated as equal; tuple arrays / type arrays / NonZeroI* are outside the supported domain",
        "technique": "runtime translation validation of gen_openapi/j2oas_* via a harness JsonSchema type with run-time schemas, a compiled type corpus, structural pointer comparison and differential validation with jsonschema",
        "engines": [
            {"name": "c08", "bin": "vmon_oas", "package": "oas", "floor": (50000, 300)},
        ],
        "assumptions": ASSUME_COMMON,
    },
    "C12": {
        "level": "exploration",
        "design_ref": "§6 C12",
        "level_text": L_EXPL + "; 3*10^5 (quick) / 10^7 (thorough) in-process to_result() calls and 4*10^4 / 4*10^6 responses of a real server over 16 body types x 8 response kinds x header-collision classes",
        "level_note": "body equality is judged by an own strict RFC 8259 reader against serde_json::to_value (floats by bit pattern); header legality model is VCHAR/SP/HTAB/obs-text; values with leading/trailing blanks, empty values and illegal declared header values are generated but not classed; an illegal redirect location must be refused by the constructor itself (in process), over the wire only 'no 3xx is sent' is demanded",
        "technique": "runtime monitoring: reference-model comparison (own status table, own JSON reader, own header-value and override model) of real HttpResponse::to_result() results and of live responses read by a strict raw HTTP/1.1 parser",
        "engines": [
            {"name": "c12-inproc", "bin": "vmon_resp", "package": "resp", "floor": (300000, 5000)},
            {"name": "c12-live", "bin": "vmon_resp", "package": "resp", "floor": (30000, 2000)},
        ],
        "assumptions": ASSUME_COMMON,
    },
    "C13": {
        "level": "exploration",
        "design_ref": "§6 C13",
        "level_text": L_EXPL + "; the status refinement types are decided exhaustively (all 65 536 u16, all StatusCodes 100..=999, all 3-digit strings); 3*10^5 / 3*10^7 generated errors through into_response; 4*10^4 / 4*10^6 live responses with request-id uniqueness over the whole run",
        "level_note": "exhaustive only for the status-type part; leak detection searches a unique ASCII marker planted in internal_message in reason phrase, header names/values and body; reserved header names (content-type, content-length, x-request-id) are excluded; uniqueness is 'no repeat within one run'",
        "technique": "runtime monitoring: contract oracle on HttpError::into_response (every constructor, struct literal, attached headers), exhaustive enumeration of ErrorStatusCode/ClientErrorStatusCode entry points, history monitor over live runs (one x-request-id per response, unique, equal to rqctx.request_id and to request_id in framework error bodies, marker non-leakage)",
        "engines": [
            {"name": "c13-inproc", "bin": "vmon_resp", "package": "resp", "floor": (600000, 3000)},
            {"name": "c13-live", "bin": "vmon_resp", "package": "resp", "floor": (30000, 1500)},
        ],
        "assumptions": ASSUME_COMMON,
    },
    "C14": {
        "level": "exploration",
        "design_ref": "§6 C14",
        "level_text": L_EXPL + "; 7*10^4 / 4*10^6 issue-accept round trips incl. every token length 496..532, every single-byte substitution/insertion/deletion of 32 / 1024 valid tokens, 13+11 limit strings and malformed tokens over the wire",
        "level_note": "public surface only (ResultsPage::new, serde_urlencoded::from_str::<PaginationParams>); 'definitely malformed' = wrong or unknown version, wrong shape, base64 of non-JSON, characters outside both base64 alphabets, empty token, over-long; padding variants and all mutations may be refused or yield some selector (never panic/5xx); limits 2^32 and larger, empty and '+5'/'007' numerals may be 4xx or a clamped 200; duplicate page_token keys are not generated",
        "technique": "runtime monitoring: round-trip and metamorphic oracles (token alone decides the page), own base64url/token builder for hostile tokens, exhaustive single-byte mutation, panic monitor; live limit-clamp model min(n,10000)/100 with handler-entry history check",
        "engines": [
            {"name": "c14-inproc", "bin": "vmon_resp", "package": "resp", "floor": (1500000, 600)},
            {"name": "c14-live", "bin": "vmon_resp", "package": "resp", "floor": (30000, 150)},
        ],
        "assumptions": ASSUME_COMMON,
    },
    "C15": {
        "level": "exploration",
        "design_ref": "§6 C15",
        "level_text": L_EXPL + "; 3.6*10^4 (quick) / 7.3*10^4 (thorough) complete scans, first page to last token, through live paginated endpoints; exhaustive in N for 0..300 x 11 limits x 10 orders",
        "level_note": "the collection is a pure function of N and the model sorts it independently of the handler's BTreeMap ranges; sizes reach 25 000; limits cover absent and 1..2^32-1, including 9999/10000/10001 around the clamp; the endpoints are the examples' code and the parts under test are PaginationParams, page_limit, ResultsPage::new and the token round trip; c15-tls scans 200 kB pages over HTTPS with a slow reader (small receive buffer and MSS set before connect)",
        "technique": "runtime monitoring: pagination scan reference model (order, exactly-once, page <= min(limit, 10000)/100, token iff non-empty, <= ceil(N/limit)+1 requests) over a raw HTTP client, with conservation check pages fetched = pages served",
        "engines": [
            {"name": "c15-scan", "bin": "vmon_wsp", "package": "wsp"},
            {"name": "c15-tls", "bin": "vmon_tls", "package": "tlsmon", "floor": (2, 2)},
        ],
        "assumptions": ASSUME_COMMON,
    },
    "C16": {
        "level": "exploration",
        "design_ref": "§6 C16",
        "level_text": L_EXPL + "; history monitor over generated disconnect schedules: 480 (quick) / 30 000 (thorough) scenarios, both task modes, victims leaving by close or RST at five phases; ~200 distinct orderings of (ENTER, steps, DISCONNECT, DONE/DROP) per (mode, phase, style), up to 100 handlers in flight",
        "level_note": "schedules are those the stress runs produced (tokio workers 1/2/4/16, optional CPU hogs, 1-128 concurrent raw-socket clients); cancellation is decided as bounded progress: gate kept shut, 10 s watchdog, then the gate is opened and only a subsequent H_DONE is a violation; HTTP/1.1 requests pipelined behind a panicking one are counted, not judged; HTTP/2 streams (c16-h2: connection drop / RST_STREAM with four reasons) and TLS clients leaving at every handshake stage (c16-tls) are judged with the same history rules; h2 over TLS is not driven here",
        "technique": "runtime history monitor: append-only seq-ordered event log written by gated / stepping / 8 MB-response / panicking harness handlers and raw-socket clients on real servers; offline oracle for exactly-once entry, exactly-one ending, no progress after cancel, detached completion, delivery to clients that stay, panic isolation",
        "engines": [
            {"name": "c16-disconnect", "bin": "vmon_hist", "package": "hist"},
            {"name": "c16-h2", "bin": "vmon_hist", "package": "hist"},
            {"name": "c16-tls", "bin": "vmon_tls", "package": "tlsmon"},
            asan("C16", "c16-disconnect", "hist", "vmon_hist"),
            asan("C16", "c16-h2", "hist", "vmon_hist"),
        ],
        "assumptions": ASSUME_COMMON,
    },
    "C17": {
        "level": "exploration",
        "design_ref": "§6 C17",
        "level_text": L_EXPL + "; history monitor over 640 (quick) / 10 000 (thorough) shutdown scenarios: close() called settled or racing against started handlers, idle and half-sent connections, departed clients of detached handlers, late arrivals, a panicking handler and 0-6 extra waiters; 43-69 distinct orderings of (ENTER, CLOSE_CALL, GATE, DISCONNECT, DONE/DROP, CLOSE_RET) per population",
        "level_note": "liveness is checked as bounded progress: a 30 s watchdog at logical quiescence, then three re-runs alone, only 3/3 hangs is a violation; the port clause counts only if the old instance answers or a LISTEN socket on the old port still belongs to this process while no newer harness server bound it; waiters are created before close() (it consumes the server); c17-h2 repeats the rules with multiplexed HTTP/2 streams whose client stays and keeps reading, c17-drop with shutdown requested by dropping the handle (waiters still pending 40 s after every handler ended and every client left = violation); how long a SILENT peer may delay shutdown is not judged (DESIGN §7 O2)",
        "technique": "runtime history monitor: server.close() and wait_for_shutdown() driven on the server's own runtime with call/return events logged; oracle over seq order for response completeness, close-after-every-handler-end, equal waiter results, refused port, deadlock by the re-run rule",
        "engines": [
            {"name": "c17-shutdown", "bin": "vmon_hist", "package": "hist"},
            {"name": "c17-h2", "bin": "vmon_hist", "package": "hist"},
            {"name": "c17-drop", "bin": "vmon_hist", "package": "hist"},
            {"name": "c17-tls", "bin": "vmon_tls", "package": "tlsmon"},
            asan("C17", "c17-shutdown", "hist", "vmon_hist"),
        ],
        "assumptions": ASSUME_COMMON,
    },
    "C20": {
        "level": "exploration",
        "design_ref": "§6 C20",
        "level_text": L_EXPL + "; ~1.9*10^4 (quick) / 2.4*10^5 (thorough) real handshakes against live channel endpoints; the 101, the accept digest (own SHA-1 and base64), the handler entry and every post-upgrade byte in both directions are checked",
        "level_note": "8x8 legal list spellings plus HTAB and multi-line, 15 missing/wrong subsets, 6 key classes, 13 flows, 7 payload size classes, up to 2 560 simultaneous upgrades; wall-clock never decides: a stalled stream is resolved by half-closing and judging the end of stream, otherwise inconclusive; HTTP/1.0, duplicate Version/Key lines and SP-only list separators are deliberately unclassed; an unanswered complete handshake is a violation only when a control handshake on a fresh connection is answered meanwhile; over TLS additionally server bursts, a stalled writer that flushes, half-close, and a silent peer on the port during the upgrade",
        "technique": "runtime monitoring: RFC 6455 / RFC 9110 list-syntax reference model with independent SHA-1/base64 plus history monitor (CH_ENTER/CH_EOF event log) over a raw-socket client and real servers",
        "engines": [
            {"name": "c20-handshake", "bin": "vmon_wsp", "package": "wsp"},
            {"name": "c20-tls", "bin": "vmon_tls", "package": "tlsmon"},
            asan("C20", "c20-handshake", "wsp", "vmon_wsp"),
        ],
        "assumptions": ASSUME_COMMON,
    },
    "C06": {
        "level": "exploration",
        "design_ref": "§6 C06",
        "level_text": L_EXPL + "; for every generated table and every version of U (plus range bounds) the document's operation set is compared with the model's served-and-published set, every documented and every unpublished in-range endpoint is looked up in the real router, every $ref is resolved, and bytes are compared across renderings, registration orders and processes",
        "level_note": "trusts the reference dispatch model; wildcard endpoints are kept unpublished (as the macro enforces); request/response types come from a small fixed corpus with shared, recursive and same-named types",
        "technique": "runtime monitoring: document-vs-model and document-vs-router comparison on generated APIs, reference resolution walk, byte-equality metamorphic checks (twice / permuted order / other process)",
        "engines": [
            {"name": "c06-openapi"},
            miri("C06", "c06-openapi"),
        ],
        "assumptions": ASSUME_COMMON,
    },
    "C04": {
        "level": "exploration",
        "design_ref": "§6 C04",
        "level_text": L_EXPL + "; Allow compared as a set with the model's served-method set at (path, version)",
        "level_note": "trusts the reference matcher; method tokens other than the canonical upper-case ones are not judged",
        "technique": "runtime monitoring: 404/405/Allow reference model compared with real lookup_route errors over method-sparse, version-sliced tables",
        "engines": [
            {"name": "c04-router"},
            {"name": "c04-live"},
        ],
        "assumptions": ASSUME_COMMON,
    },
}
