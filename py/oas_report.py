"""Report object for python engines: same JSON as vmon::report::Report::to_json()
(harness/vmon/src/report.rs) plus wall_s / seed / tier, so that bin/check can
merge it like any Rust engine's report."""
import json
import os
import subprocess
import sys
import time

VERIF = os.path.dirname(os.path.dirname(os.path.abspath(__file__)))
HARNESS = os.path.join(VERIF, "harness")


class Report:
    def __init__(self, prop, engine, rule):
        self.property = prop
        self.engine = engine
        self.rule = rule
        self.evaluations = 0
        self.classes = set()
        self.samples = []
        self.violations = {}
        self.inconclusive_ = {}
        self.counters = {}
        self.extra = {}
        self.exhaustive = None
        self.sample_cap = 12

    def eval(self, cls, n=1):
        self.evaluations += n
        self.classes.add(cls)

    def eval_trivial(self, n=1):
        self.evaluations += n

    def sample(self, v):
        if len(self.samples) < self.sample_cap:
            self.samples.append(v)

    def want_sample(self):
        return len(self.samples) < self.sample_cap

    def count(self, key, n=1):
        self.counters[key] = self.counters.get(key, 0) + n

    def inconclusive(self, reason, n=1):
        self.inconclusive_[reason] = self.inconclusive_.get(reason, 0) + n

    def violate(self, sig, detail):
        assert sig.startswith(self.property + ":"), sig
        e = self.violations.setdefault(sig, {"sig": sig, "count": 0, "details": []})
        e["count"] += 1
        if len(e["details"]) < 3:
            e["details"].append(detail)

    def merge(self, o):
        self.evaluations += o.evaluations
        self.classes |= o.classes
        for s in o.samples:
            self.sample(s)
        for k, v in o.violations.items():
            e = self.violations.setdefault(k, {"sig": k, "count": 0, "details": []})
            e["count"] += v["count"]
            for d in v["details"]:
                if len(e["details"]) < 3:
                    e["details"].append(d)
        for k, v in o.inconclusive_.items():
            self.inconclusive_[k] = self.inconclusive_.get(k, 0) + v
        for k, v in o.counters.items():
            if k.startswith("max_"):
                self.counters[k] = max(self.counters.get(k, 0), v)
            else:
                self.counters[k] = self.counters.get(k, 0) + v
        for k, v in o.extra.items():
            if isinstance(v, (int, float)) and isinstance(self.extra.get(k), (int, float)):
                self.extra[k] += v
            else:
                self.extra[k] = v

    def to_json(self):
        return {
            "property": self.property,
            "engine": self.engine,
            "rule": self.rule,
            "evaluations": self.evaluations,
            "distinct_nontrivial": len(self.classes),
            "classes_sample": sorted(self.classes)[:40],
            "samples": self.samples,
            "violations": [self.violations[k] for k in sorted(self.violations)],
            "inconclusive": dict(sorted(self.inconclusive_.items())),
            "counters": dict(sorted(self.counters.items())),
            "extra": self.extra,
            "exhaustive": self.exhaustive,
        }

    def write(self, out, seed, tier, t0):
        j = self.to_json()
        j["wall_s"] = time.time() - t0
        j["seed"] = seed
        j["tier"] = tier
        text = json.dumps(j, indent=1, ensure_ascii=False, default=str)
        if out:
            tmp = out + ".tmp%d" % os.getpid()
            with open(tmp, "w") as f:
                f.write(text)
            os.replace(tmp, out)
        else:
            print(text)


def oas_binary():
    """Path of vmon_oas.  VMON_OAS_BIN overrides (sensitivity runs against a
    scratch build); otherwise the workspace binary, (re)built here because
    bin/check only builds packages of `kind: vmon` engines."""
    p = os.environ.get("VMON_OAS_BIN")
    if p:
        return p
    env = dict(os.environ, CARGO_NET_OFFLINE="true")
    r = subprocess.run(["cargo", "build", "--release", "--offline", "-q", "-p", "oas"],
                       cwd=HARNESS, env=env, stdout=subprocess.PIPE, stderr=subprocess.STDOUT, text=True)
    if r.returncode != 0:
        sys.stderr.write(r.stdout[-6000:])
        sys.stderr.write("\nvmon_oas does not build against /repo: no report written (INCONCLUSIVE)\n")
        sys.exit(2)
    return os.path.join(HARNESS, "target", "release", "vmon_oas")


def parse_args(argv):
    a = {"seed": 1, "tier": "quick", "out": "", "procs": min(16, os.cpu_count() or 4)}
    it = iter(argv)
    for k in it:
        if k == "--seed":
            a["seed"] = int(next(it))
        elif k == "--tier":
            a["tier"] = next(it)
        elif k == "--out":
            a["out"] = next(it)
        elif k in ("--procs", "--threads"):
            a["procs"] = int(next(it))
        else:
            sys.stderr.write("unknown argument %r\n" % k)
            sys.exit(2)
    if a["tier"] not in ("quick", "thorough"):
        sys.stderr.write("unknown tier\n")
        sys.exit(2)
    return a
