#!/usr/bin/env python3-vt
"""C08 engine: "Converting a type's JSON Schema to OpenAPI preserves its meaning".

Translation validation.  Programs = types / schemas:
  * the type corpus compiled into `vmon_oas` (harness/oas/src/corpus.rs),
  * dynamic schemas drawn at run time (harness/oas/src/dynschema.rs) and pushed
    through the real ApiDescription::openapi() by a harness type whose
    JsonSchema impl returns them.
For every program `vmon_oas c08-dump` emits the SOURCE schema (schemars,
SchemaSettings::openapi3(), root schema + definitions) and the PUBLISHED
document.  This script is the oracle:
  (1) pointer-wise structural comparison: every annotation and constraint
      keyword of the source must be present and equal at the corresponding
      pointer of the published schema;
  (2) instances generated from the source schema plus near-miss mutations are
      validated with python-jsonschema Draft7(+nullable) against the source and
      Draft4(+nullable) against the published schema; the verdicts must agree.

usage: oas_c08.py --seed N --tier quick|thorough --out FILE [--procs N]
"""
import json
import multiprocessing
import os
import random
import subprocess
import sys
import tempfile
import time

sys.path.insert(0, os.path.dirname(os.path.abspath(__file__)))
from oas_report import Report, oas_binary, parse_args  # noqa: E402
from oas_schema import (Ctx, Diff, Gen, compare, cowalk, kind_of, mutate, normalise_numbers,  # noqa: E402
                        unguarded_cycle)

PROP = "C08"
ENGINE = "c08-oracle"
RULE = ("programs = corpus types (each at its legal placement sites: request body, response body, query/path "
        "members, response headers) + run-time dynamic schemas from the derive-expressible fragment; per program a "
        "pointer-wise keyword comparison source->published and N generated instances + N near-miss mutations judged "
        "by Draft7(source) vs Draft4(published) validators; class = (program kind, placement, root schema kind, "
        "instance kind, source verdict)")

F5_SIG = "C08:unit-type-published-as-string-enum-null"
F7_SIG = "C08:same-named-types-collide-in-components"


def site_suffix(site):
    return {"query": ":parameter", "path": ":parameter", "headers": ":header"}.get(site, "")


def kw_name(k):
    return "x-extension" if k.startswith("x-") else k


class Checker:
    def __init__(self, rep, seed, n_inst, same_named):
        self.rep = rep
        self.seed = seed
        self.n_inst = n_inst
        self.same_named = same_named   # [(rust_type, definitions)] of the F7 class

    def violate(self, sig, wit):
        self.rep.violate(sig, wit)
        self.rep.count("violations.%s.%s" % (wit.get("program", "?"), sig[4:]))
        if wit.get("program") == "corpus":
            self.rep.count("corpus_type_with_violation.%s.%s" % (wit.get("entry"), sig[4:]))

    # ---- F7: does published component `name` faithfully render ANOTHER type of the same name?
    def collides(self, entry, name, pctx):
        if "same-name" not in entry.get("class", ""):
            return None
        comp = pctx.components.get(name)
        if comp is None:
            return None
        base = name.rstrip("0123456789")
        for rust_type, defs in self.same_named:
            if rust_type == entry.get("rust_type"):
                continue
            for cand in (name, base):
                if cand in defs:
                    octx = Ctx(defs[cand], defs, 7)
                    d = Diff()
                    compare(octx, pctx, defs[cand], comp, d)
                    if not d.items:
                        return rust_type
        return None

    def report_diffs(self, entry, site, diff, pctx, where, ident):
        rep = self.rep
        suffix = site_suffix(site["site"])
        collided = {}
        for it in diff.items:
            vias = [f[4:] for f in it["flags"] if f.startswith("via:")]
            f7 = None
            for via in vias:
                name = via[len("#/components/schemas/"):]
                if name not in collided:
                    collided[name] = self.collides(entry, name, pctx)
                if collided[name]:
                    f7 = (name, collided[name])
            wit = dict(ident, site=site, where=where, pointer=it["pointer"], keyword=it["keyword"],
                       source_value=it["source"], published_value=it["published"], via=vias)
            if f7:
                wit["component"] = f7[0]
                wit["component_renders_type"] = f7[1]
                self.violate(F7_SIG, wit)
            elif it["kind"] == "unit-type":
                self.violate(F5_SIG, wit)
            else:
                self.violate("C08:keyword-%s:%s%s" % (it["kind"], kw_name(it["keyword"]), suffix), wit)
        if diff.added:
            rep.count("published_only_constraint_keywords", len(diff.added))
        if diff.renamed:
            rep.count("ref_pairs_with_different_names", len(diff.renamed))
        taint = set()
        for (sref, pref) in diff.pairs:
            name = pref[len("#/components/schemas/"):]
            if collided.get(name):
                taint.add((sref, pref))
        return taint

    def instances(self, entry, site, sctx, pctx, s_node, p_node, n, label, ident, taint, allow_null=True):
        rep = self.rep
        rng = random.Random("%s|%s|%s|%s" % (self.seed, json.dumps(ident, sort_keys=True), site["site"], label))
        g = Gen(rng, sctx, honour_formats=True, max_depth=5)
        rootkind = kind_of(s_node if isinstance(s_node, dict) else {})
        checked = 0
        cls_prefix = "%s|%s|%s" % (entry.get("class", "?").split("|")[0], site["site"], rootkind)

        def check(inst, how):
            nonlocal checked
            if inst is None and not allow_null:
                return
            a = sctx.valid(inst, s_node)
            b = pctx.valid(inst, p_node)
            if a is None or b is None:
                rep.inconclusive("validator recursion limit on a generated instance")
                return
            checked += 1
            rep.eval("%s|%s|src=%s" % (cls_prefix, how, "accept" if a else "reject"))
            if a == b:
                return
            # localise: deepest corresponding pair of nodes that still disagrees
            best = None
            for (ptr, s, p, sub, tainted) in cowalk(sctx, pctx, s_node, p_node, inst, taint=taint):
                va, vb = sctx.valid(sub, s), pctx.valid(sub, p)
                if va is not None and vb is not None and va != vb:
                    depth = ptr.count("/")
                    if best is None or depth >= best[0]:
                        best = (depth, ptr, s, p, sub, tainted, va, vb)
            wit = dict(ident, site=site, instance=inst, instance_kind=how, source_accepts=a, published_accepts=b)
            if best is not None:
                _, ptr, s, p, sub, tainted, va, vb = best
                wit.update(pointer=ptr or "/", source_node=s, published_node=p, sub_instance=sub)
                pp = {k: v for k, v in p.items() if k in ("type", "enum")}
                if s.get("type") == "null" and pp == {"type": "string", "enum": [None]}:
                    self.violate(F5_SIG, wit)
                    return
                if tainted:
                    self.violate(F7_SIG, wit)
                    return
                k = kind_of(s)
            else:
                k = rootkind
            self.violate("C08:validity-disagrees:%s%s" % (k, site_suffix(site["site"])), wit)

        for _ in range(n):
            try:
                inst = g.gen(s_node)
            except RecursionError:
                rep.inconclusive("instance generator recursion limit")
                continue
            check(inst, "generated")
            m = mutate(rng, sctx, s_node, inst, allow_null=allow_null)
            if m is not None:
                check(m[1], "mut:" + m[0])
        return checked

    # ---- one program (type / schema) at all its sites
    def entry(self, entry, doc, ident):
        rep = self.rep
        comps = (doc.get("components") or {}).get("schemas") or {}
        src = entry["source"]
        normalise_numbers(src)
        if unguarded_cycle(src["definitions"]) or unguarded_cycle(comps):
            rep.inconclusive("ill-formed schema: reference cycle without an instance level")
            return 0
        sctx = Ctx(src["schema"], src["definitions"], 7)
        done_instances = {}
        total_checked = 0
        for site in entry["sites"]:
            try:
                op = doc["paths"][site["path"]][site["method"]]
            except KeyError:
                rep.inconclusive("placement site not found in the document")
                continue
            kind = site["site"]
            if kind in ("request_body", "response_body", "error_body"):
                try:
                    if kind == "request_body":
                        pub = op["requestBody"]["content"]["application/json"]["schema"]
                    else:
                        resp = op["responses"][site["status"]]
                        if "$ref" in resp:
                            # a shared response object: "#/components/responses/<name>"
                            parts = resp["$ref"].lstrip("#/").split("/")
                            node = doc
                            for part in parts:
                                node = node[part.replace("~1", "/").replace("~0", "~")]
                            resp = node
                        pub = resp["content"]["application/json"]["schema"]
                except KeyError:
                    self.violate("C08:schema-not-published", dict(ident, site=site, entry=entry["name"]))
                    continue
                pctx = Ctx(pub, comps, 4)
                diff = Diff()
                compare(sctx, pctx, src["schema"], pub, diff)
                taint = self.report_diffs(entry, site, diff, pctx, "body", ident)
                rep.eval("%s|%s|%s|structural|%s" % (entry.get("class", "?").split("|")[0], kind,
                                                     kind_of(src["schema"]), "diff" if diff.items else "same"))
                key = json.dumps(pub, sort_keys=True)
                if key not in done_instances:
                    done_instances[key] = True
                    total_checked += self.instances(entry, site, sctx, pctx, src["schema"], pub, self.n_inst,
                                                    "root", ident, taint)
            else:
                root, _ = sctx.resolve(src["schema"])
                props = root.get("properties") if isinstance(root, dict) else None
                if not isinstance(props, dict):
                    rep.inconclusive("parameter struct source is not a plain object")
                    continue
                # members contributed through allOf (a flattened struct, possibly behind a
                # newtype) are members of the parameter struct like any other
                props = dict(props)
                all_required = set(root.get("required", []))

                def merge_allof(node, depth=0):
                    for sub in (node.get("allOf") or []) if isinstance(node, dict) and depth < 8 else []:
                        sub, _ = sctx.resolve(sub)
                        if isinstance(sub, dict):
                            for k, v in (sub.get("properties") or {}).items():
                                props.setdefault(k, v)
                            all_required.update(sub.get("required", []))
                            merge_allof(sub, depth + 1)

                merge_allof(root)
                if kind == "headers":
                    try:
                        published = op["responses"][site["status"]].get("headers", {})
                    except KeyError:
                        rep.inconclusive("placement site not found in the document")
                        continue
                    members = {k.lower(): v for k, v in published.items()}
                else:
                    members = {p["name"]: p for p in op.get("parameters", []) if p.get("in") == kind}
                req = all_required
                for name, sub in props.items():
                    m = members.get(name.lower() if kind == "headers" else name)
                    wbase = dict(ident, site=site, member=name)
                    suffix = site_suffix(kind)
                    if m is None:
                        self.violate("C08:keyword-dropped:properties" + suffix, dict(wbase, source_value=sub))
                        continue
                    pub = m.get("schema", {})
                    pctx = Ctx(pub, comps, 4)
                    diff = Diff()
                    # parameter-level mappings: description lives on the parameter object;
                    # `nullable` cannot be expressed by a query/path/header string and is not judged
                    compare(sctx, pctx, sub, pub, diff, skip=frozenset(("description", "nullable")))
                    taint = self.report_diffs(entry, site, diff, pctx, "member:" + name, ident)
                    sdesc = sub.get("description") if isinstance(sub, dict) else None
                    if sdesc is not None:
                        if "description" not in m:
                            self.violate("C08:keyword-dropped:description" + suffix,
                                        dict(wbase, source_value=sdesc))
                        elif m["description"] != sdesc:
                            self.violate("C08:keyword-altered:description" + suffix,
                                        dict(wbase, source_value=sdesc, published_value=m["description"]))
                    if (name in req) != bool(m.get("required", False)):
                        self.violate("C08:keyword-altered:required" + suffix,
                                    dict(wbase, source_required=name in req, published_required=m.get("required")))
                    rep.eval("%s|%s|%s|structural|%s" % (entry.get("class", "?").split("|")[0], kind,
                                                         kind_of(sub if isinstance(sub, dict) else {}),
                                                         "diff" if diff.items else "same"))
                    total_checked += self.instances(entry, site, sctx, pctx, sub, pub, max(4, self.n_inst // 6),
                                                    "member:" + name, ident, taint, allow_null=False)
        return total_checked


def dangling_refs(doc):
    out = []

    def walk(node, ptr):
        if isinstance(node, dict):
            r = node.get("$ref")
            if isinstance(r, str) and r.startswith("#/"):
                cur = doc
                ok = True
                for part in r[2:].split("/"):
                    part = part.replace("~1", "/").replace("~0", "~")
                    if isinstance(cur, dict) and part in cur:
                        cur = cur[part]
                    else:
                        ok = False
                        break
                if not ok:
                    out.append((ptr, r))
            for k, v in node.items():
                walk(v, ptr + "/" + str(k))
        elif isinstance(node, list):
            for i, v in enumerate(node):
                walk(v, "%s/%d" % (ptr, i))

    walk(doc, "")
    return out


def run_lines(lines, rep, seed, n_inst):
    same_named = []
    for line in lines:
        for e in line.get("entries", []):
            if "same-name" in e.get("class", ""):
                same_named.append((e.get("rust_type"), e["source"]["definitions"]))
    ck = Checker(rep, seed, n_inst, same_named)
    programs = 0
    checked = 0
    for line in lines:
        if "panicked" in line:
            msg = line["panicked"].get("message", "").split("\n")[0][:80]
            rep.inconclusive("dynamic schema outside the supported domain (dropshot panicked: %s)" % msg)
            continue
        if "refused" in line:
            rep.inconclusive("dynamic schema refused at registration: " + line["refused"][:80])
            continue
        doc = normalise_numbers(line["document"])
        # every reference in the published document resolves inside it: a schema that points
        # at a component that was not published accepts/refuses nothing definite
        dangling = dangling_refs(doc)
        if dangling:
            ck.violate("C08:published-schema-references-missing-component",
                       {"program": line["kind"], "api": line.get("api"), "id": line.get("id"),
                        "missing": sorted(set(r for _, r in dangling))[:10], "first_at": dangling[0][0]})
        for e in line["entries"]:
            if "registration_failed" in e:
                ck.violate("C08:schema-not-published:registration-of-a-supported-type-failed",
                           {"program": line["kind"], "api": line.get("api"), "entry": e["name"], "why": e["registration_failed"][:300]})
                continue
            if line["kind"] == "dyn":
                ident = {"program": "dyn", "id": line["id"], "entry": e["name"], "raw": line["raw"]}
                if rep.want_sample() and e["name"] == "DynRoot":
                    rep.sample({"program": "dyn", "id": line["id"], "class": line["class"],
                                "source": e["source"]["schema"]})
            else:
                ident = {"program": "corpus", "api": line["api"], "entry": e["name"], "rust_type": e["rust_type"]}
            if not e["sites"]:
                continue
            programs += 1
            try:
                checked += ck.entry(e, doc, ident)
            except Exception as ex:  # noqa: BLE001 - the validator library's own errors included
                if dangling:
                    # the document has references into nowhere (already reported above):
                    # validators cannot work with it
                    rep.inconclusive("entry skipped: the published document has unresolvable references")
                else:
                    rep.inconclusive("oracle error on one entry: %s" % type(ex).__name__)
            for f in line.get("features", []):
                rep.count("dyn_feature." + f)
    rep.extra["programs"] = rep.extra.get("programs", 0) + programs
    rep.extra["disagreements_checked"] = rep.extra.get("disagreements_checked", 0) + checked
    rep.count("programs_" + ("dyn" if lines and lines[0].get("kind") == "dyn" else "corpus"), programs)


def worker(task):
    kind, binpath, seed, n_inst, arg = task
    rep = Report(PROP, ENGINE, RULE)
    fd, path = tempfile.mkstemp(prefix="oas_c08_", suffix=".jsonl")
    os.close(fd)
    try:
        if kind == "corpus":
            cmd = [binpath, "c08-dump", "--part", "corpus", "--out", path]
        else:
            shard, count = arg
            cmd = [binpath, "c08-dump", "--part", "dyn", "--seed", str(seed), "--shard", str(shard),
                   "--count", str(count), "--out", path]
        p = subprocess.run(cmd, stdout=subprocess.PIPE, stderr=subprocess.PIPE, text=True, timeout=600)
        if p.returncode != 0:
            rep.inconclusive("vmon_oas c08-dump failed: exit %d %s" % (p.returncode, p.stderr[-300:]))
            return rep
        lines = [json.loads(x) for x in open(path)]
        if kind == "corpus":
            # arg = (chunk index, number of chunks): split the entries of every API
            i, n = arg
            for line in lines:
                # the same-named class needs all its entries together: chunk 0 takes them
                if line["api"].startswith("same-named"):
                    if i != 0:
                        line["entries"] = _keep_sources_only(line["entries"])
                else:
                    line["entries"] = [e for k, e in enumerate(line["entries"]) if k % n == i]
        run_lines(lines, rep, seed, n_inst)
    except subprocess.TimeoutExpired:
        rep.inconclusive("vmon_oas c08-dump watchdog")
    finally:
        try:
            os.unlink(path)
        except OSError:
            pass
    return rep


def _keep_sources_only(entries):
    # entries without sites: contribute their sources to the same-name table, are not checked twice
    return [dict(e, sites=[]) for e in entries]


def main():
    sys.setrecursionlimit(20000)
    a = parse_args(sys.argv[1:])
    t0 = time.time()
    binpath = oas_binary()
    quick = a["tier"] == "quick"
    n_dyn, per_shard, n_inst_dyn, n_inst_corpus = (2048, 16, 15, 60) if quick else (10240, 40, 50, 300)
    tasks = []
    chunks = 8 if quick else 16
    for i in range(chunks):
        tasks.append(("corpus", binpath, a["seed"], n_inst_corpus, (i, chunks)))
    for s in range(n_dyn // per_shard):
        tasks.append(("dyn", binpath, a["seed"], n_inst_dyn, (s, per_shard)))
    rep = Report(PROP, ENGINE, RULE)
    with multiprocessing.Pool(a["procs"]) as pool:
        for r in pool.imap_unordered(worker, tasks):
            rep.merge(r)
    rep.write(a["out"], a["seed"], a["tier"], t0)


if __name__ == "__main__":
    main()
